package signedexchange

// Confirmation of signedexchange.serializeSignedMessage#ensures[b2b3-validity-url-length-without-cert]
// and #ensures[b2b3-cert-flag]: with cert-sha256 unset the b2/b3 signed message
// must carry a single 0 byte after the context string's separator, before the
// 8-byte length of validity-url. (Copy into go/signedexchange to run.)

import (
	"testing"

	"github.com/WICG/webpackage/go/signedexchange/version"
)

func TestF12SignedMessageWithoutCertSha256(t *testing.T) {
	e := &Exchange{Version: version.Version1b3, RequestURI: "https://example.com/"}
	msg, err := serializeSignedMessage(e, nil, "e", 1, 2)
	if err != nil {
		t.Fatal(err)
	}
	// 64 spaces, "HTTP Exchange 1 b3" (18 bytes), 0 separator => offset 83
	if msg[82] != 0 {
		t.Fatalf("separator missing")
	}
	if msg[83] != 0 {
		t.Fatalf("byte 83 is %d, want the 0 byte that stands for an unset cert-sha256", msg[83])
	}
	if msg[91] != 1 || msg[92] != 'e' {
		t.Fatalf("validity-url length/bytes at wrong offset: % x", msg[84:93])
	}
}
