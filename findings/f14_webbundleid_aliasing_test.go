package webbundleid

// Confirmation of integrityblock/webbundleid.GetWebBundleId#frame[keyWithSuffix := append(...)]:
// computing the ID must not write into the memory behind the caller's key.
// (Copy into go/integrityblock/webbundleid to run.)

import (
	"crypto/ed25519"
	"testing"
)

func TestF14GetWebBundleIdLeavesCallersMemoryAlone(t *testing.T) {
	backing := make([]byte, 40)
	for i := range backing {
		backing[i] = 0xAA
	}
	key := ed25519.PublicKey(backing[:32]) // spare capacity behind the key
	GetWebBundleId(key)
	for i := 32; i < 40; i++ {
		if backing[i] != 0xAA {
			t.Fatalf("byte %d behind the key was overwritten with %#x", i, backing[i])
		}
	}
}
