package bundle

// Confirmation of the counterexample of obligation
// bundle.parseIndexSection$1#ensures[no-wrap] (offset+length wraps).
// Run: go test -overlay <this file as go/bundle/zz_f8_test.go> -run TestF8 ./go/bundle

import (
	"bytes"
	"testing"

	"github.com/WICG/webpackage/go/internal/cbor"
)

func TestF8IndexEntryWraps(t *testing.T) {
	var buf bytes.Buffer
	e := cbor.NewEncoder(&buf)
	e.EncodeMap([]*cbor.MapEntryEncoder{cbor.GenerateMapEntry(func(k, v *cbor.Encoder) {
		k.EncodeTextString("https://example.com/")
		v.EncodeArrayHeader(2)
		v.EncodeUint(1<<64 - 1) // offset
		v.EncodeUint(2)         // length: offset+length wraps to 1
	})})
	sos := []sectionOffset{{"index", uint64(buf.Len())}, {"responses", 10}}
	reqs, err := parseIndexSection(buf.Bytes(), 100, sos)
	if err == nil {
		t.Fatalf("entry with offset 2^64-1, length 2 accepted: %+v", reqs)
	}
}
