package mice

// Confirmation of signedexchange/mice.(Encoding).Encode#alloc[proofs := make([][]byte, numRecords)]:
// len(buf)+recordSize-1 overflows for a very large record size.

import (
	"bytes"
	"math"
	"testing"
)

func TestF15EncodeHugeRecordSize(t *testing.T) {
	defer func() {
		if r := recover(); r != nil {
			t.Fatalf("panic: %v", r)
		}
	}()
	var out bytes.Buffer
	if _, err := Draft03Encoding.Encode(&out, []byte("ab"), math.MaxInt64); err != nil {
		t.Fatalf("error: %v", err)
	}
	if out.Len() != 8+2 {
		t.Fatalf("unexpected stream length %d", out.Len())
	}
}
