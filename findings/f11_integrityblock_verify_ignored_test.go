package integrityblock

// Confirmation of integrityblock.(*IntegrityBlockSigner).SignAndAddNewSignature#ensures[recorded-signature-verifies]:
// a signing strategy whose signature does not verify under the public key
// that is about to be recorded must make the signer fail and add nothing.
// (Copy into go/integrityblock to run.)

import (
	"crypto/ed25519"
	"crypto/rand"
	"testing"
)

type f11WrongKeyStrategy struct{ priv ed25519.PrivateKey }

func (s f11WrongKeyStrategy) Sign(data []byte) ([]byte, error) {
	return ed25519.Sign(s.priv, data), nil
}
func (s f11WrongKeyStrategy) GetPublicKey() (ed25519.PublicKey, error) {
	return s.priv.Public().(ed25519.PublicKey), nil
}

func TestF11SignatureThatDoesNotVerifyIsRefused(t *testing.T) {
	_, signingKey, _ := ed25519.GenerateKey(rand.Reader)
	otherPub, _, _ := ed25519.GenerateKey(rand.Reader) // the key that gets recorded
	ibs := &IntegrityBlockSigner{
		SigningStrategy: f11WrongKeyStrategy{signingKey},
		WebBundleHash:   make([]byte, 64),
		IntegrityBlock:  generateEmptyIntegrityBlock(),
	}
	err := ibs.SignAndAddNewSignature(otherPub, GenerateSignatureAttributesWithPublicKey(otherPub))
	if err == nil {
		t.Fatalf("signature made with a different key was accepted; stack now has %d entries", len(ibs.IntegrityBlock.SignatureStack))
	}
	if len(ibs.IntegrityBlock.SignatureStack) != 0 {
		t.Fatalf("error returned but %d signature(s) added", len(ibs.IntegrityBlock.SignatureStack))
	}
}
