package bundle

// Confirmation of bundle.decodeCborHeaders#invariant.preserved[loop 0][count]:
// a response header map carrying the same field name twice must be refused.

import (
	"bytes"
	"testing"

	"github.com/WICG/webpackage/go/internal/cbor"
)

func TestF9DuplicateHeaderName(t *testing.T) {
	var b bytes.Buffer
	e := cbor.NewEncoder(&b)
	e.EncodeArrayHeader(0) // dummy to get a writer; real bytes follow
	b.Reset()
	// map(2) { "a": "1", "a": "2" } written by hand (EncodeMap refuses duplicates)
	b.Write([]byte{0xa2, 0x41, 'a', 0x41, '1', 0x41, 'a', 0x41, '2'})
	h, _, err := decodeCborHeaders(cbor.NewDecoder(bytes.NewReader(b.Bytes())))
	if err == nil {
		t.Fatalf("duplicate header name accepted, second value silently replaced the first: %v", h)
	}
}
