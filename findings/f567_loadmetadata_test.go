package bundle

// Confirmation of the failing loadMetadata obligations
//   invariant.preserved[loop 0][offset-tracks-table]  (unknown section not stepped over; wrap)
//   bounds[sectionContents := bs[offset:end]]          (offset+length wraps -> panic)
//   ensures[requests-in-file]                          (responses section never checked against the file)
// Run with: go test -overlay {"Replace":{"/repo/go/bundle/zz_f567_test.go": this file}} -run TestF ./go/bundle

import (
	"bytes"
	"testing"

	"github.com/WICG/webpackage/go/bundle/version"
	"github.com/WICG/webpackage/go/internal/cbor"
)

type f567sec struct {
	name     string
	declared uint64
	body     []byte
}

func f567bundle(secs []f567sec) []byte {
	var sl bytes.Buffer
	e := cbor.NewEncoder(&sl)
	e.EncodeArrayHeader(2 * len(secs))
	for _, s := range secs {
		e.EncodeTextString(s.name)
		e.EncodeUint(s.declared)
	}
	var out bytes.Buffer
	out.Write(version.VersionB2.HeaderMagicBytes())
	o := cbor.NewEncoder(&out)
	o.EncodeByteString(sl.Bytes())
	o.EncodeArrayHeader(len(secs))
	for _, s := range secs {
		out.Write(s.body)
	}
	out.Write([]byte{0x48, 0, 0, 0, 0, 0, 0, 0, 0})
	return out.Bytes()
}

func f567index(url string, off, length uint64) []byte {
	var b bytes.Buffer
	e := cbor.NewEncoder(&b)
	e.EncodeMap([]*cbor.MapEntryEncoder{cbor.GenerateMapEntry(func(k, v *cbor.Encoder) {
		k.EncodeTextString(url)
		v.EncodeArrayHeader(2)
		v.EncodeUint(off)
		v.EncodeUint(length)
	})})
	return b.Bytes()
}

func f567response() []byte {
	var hdr bytes.Buffer
	h := cbor.NewEncoder(&hdr)
	h.EncodeMap([]*cbor.MapEntryEncoder{cbor.GenerateMapEntry(func(k, v *cbor.Encoder) {
		k.EncodeByteString([]byte(":status"))
		v.EncodeByteString([]byte("200"))
	})})
	var b bytes.Buffer
	e := cbor.NewEncoder(&b)
	e.EncodeArrayHeader(2)
	e.EncodeByteString(hdr.Bytes())
	e.EncodeByteString([]byte("body"))
	return b.Bytes()
}

// F5: a section the reader does not know, placed before the index, must be stepped over.
func TestF5UnknownSectionSteppedOver(t *testing.T) {
	resp := f567response()
	respSec := append([]byte{0x81}, resp...) // responses = [ response ]
	idx := f567index("https://example.com/", 1, uint64(len(resp)))
	unk := []byte{0x43, 1, 2, 3}
	bs := f567bundle([]f567sec{{"future", uint64(len(unk)), unk}, {"index", uint64(len(idx)), idx}, {"responses", uint64(len(respSec)), respSec}})
	b, err := Read(bytes.NewReader(bs))
	if err != nil {
		t.Fatalf("bundle with an unknown section before the index rejected: %v", err)
	}
	if len(b.Exchanges) != 1 || string(b.Exchanges[0].Response.Body) != "body" {
		t.Fatalf("wrong content: %+v", b.Exchanges)
	}
}

// F6: a section length near 2^64 must be an error, not a panic.
func TestF6SectionLengthWraps(t *testing.T) {
	resp := f567response()
	respSec := append([]byte{0x81}, resp...)
	idx := f567index("https://example.com/", 1, uint64(len(resp)))
	bs := f567bundle([]f567sec{{"index", 1<<64 - 1, idx}, {"responses", uint64(len(respSec)), respSec}})
	defer func() {
		if r := recover(); r != nil {
			t.Fatalf("panic: %v", r)
		}
	}()
	if _, err := Read(bytes.NewReader(bs)); err == nil {
		t.Fatalf("accepted")
	}
}

// F7: a responses section declared longer than the file must be an error.
func TestF7ResponsesLongerThanFile(t *testing.T) {
	resp := f567response()
	respSec := append([]byte{0x81}, resp...)
	idx := f567index("https://example.com/", 1, 1<<20) // entry far beyond the real data
	bs := f567bundle([]f567sec{{"index", uint64(len(idx)), idx}, {"responses", 1 << 21, respSec}})
	defer func() {
		if r := recover(); r != nil {
			t.Fatalf("panic: %v", r)
		}
	}()
	if _, err := Read(bytes.NewReader(bs)); err == nil {
		t.Fatalf("accepted")
	}
}
