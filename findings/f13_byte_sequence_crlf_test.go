package structuredheader

// Confirmation of signedexchange/structuredheader.(*parser).parseByteSequence#ensures[byte-sequence-grammar]:
// a byte sequence is "*" base64 "*"; CR and LF are not base64 characters, but
// base64.DecodeString silently skips them. (Copy into
// go/signedexchange/structuredheader to run.)

import "testing"

func TestF13ByteSequenceRejectsCRLF(t *testing.T) {
	for _, in := range []string{"*Y\nQ*", "*YQ\r\n==*", "*\n*"} {
		if ll, err := ParseListOfLists(in); err == nil {
			t.Errorf("ParseListOfLists(%q) accepted: %v", in, ll)
		}
	}
	// sanity: the same sequences without CR/LF are accepted
	for _, in := range []string{"*YQ*", "*YQ==*", "**"} {
		if _, err := ParseListOfLists(in); err != nil {
			t.Errorf("ParseListOfLists(%q) rejected: %v", in, err)
		}
	}
}
