package bundle

// Confirmation of bundle.(*CountingWriter).ReadFrom#invariant.preserved[loop 0]
// (bytes handed to the destination are not counted) for a destination that
// does not implement io.ReaderFrom.

import (
	"bytes"
	"io"
	"testing"
)

type f10plainWriter struct{ buf bytes.Buffer }

func (w *f10plainWriter) Write(p []byte) (int, error) { return w.buf.Write(p) }

func TestF10ReadFromCounts(t *testing.T) {
	dst := &f10plainWriter{}
	cw := NewCountingWriter(dst)
	n, err := cw.ReadFrom(io.LimitReader(bytes.NewReader(make([]byte, 100)), 100))
	if err != nil || n != 100 || cw.Written != 100 || dst.buf.Len() != 100 {
		t.Fatalf("n=%d err=%v Written=%d handed-to-destination=%d", n, err, cw.Written, dst.buf.Len())
	}
}
