package main

// Semantics of individual go/ssa instructions.

import (
	"fmt"
	"strings"
	"go/token"
	"go/types"
	"math/big"

	"golang.org/x/tools/go/ssa"
)

// exec executes one non-phi, non-terminator-aware instruction. Returns false
// if the rest of the block is dead (unsupported).
func (f *Frame) exec(ins ssa.Instruction, st *State) bool {
	c := f.c
	f.anchoredAsserts(ins, st)
	switch x := ins.(type) {
	case *ssa.DebugRef:
		return true
	case *ssa.If, *ssa.Jump, *ssa.Return:
		return true
	case *ssa.Panic:
		f.doPanic(x, st)
		return true
	case *ssa.RunDefers:
		return true
	case *ssa.Alloc:
		et := x.Type().(*types.Pointer).Elem()
		r := c.newRef(st, x.Comment)
		c.storeObjZero(st, r, et)
		f.bind(x, Val{T: r, Typ: x.Type()})
	case *ssa.BinOp:
		f.bind(x, f.binop(x, st))
	case *ssa.UnOp:
		f.bind(x, f.unop(x, st))
	case *ssa.ChangeType:
		v := f.val(x.X)
		v.Typ = x.Type()
		f.bind(x, v)
	case *ssa.ChangeInterface:
		v := f.val(x.X)
		v.Typ = x.Type()
		f.bind(x, v)
	case *ssa.Convert:
		f.bind(x, f.convert(f.val(x.X), x.Type(), st, x.Pos()))
	case *ssa.MakeInterface:
		v := f.val(x.X)
		f.bind(x, Val{T: c.box(v), Typ: x.Type(), Bind: []Val{v}})
	case *ssa.TypeAssert:
		f.bind(x, f.typeAssert(x, st))
	case *ssa.Extract:
		t := f.val(x.Tuple)
		if x.Index < len(t.Tup) {
			f.vals[x] = t.Tup[x.Index]
		} else {
			c.unsupported("extract from non-tuple %s", x.Tuple.Name())
			f.vals[x] = f.freshVal("extract", x.Type(), st, f.curGuard)
		}
	case *ssa.FieldAddr:
		f.vals[x] = f.fieldAddr(x, st)
	case *ssa.Field:
		v := f.val(x.X)
		f.bind(x, Val{T: c.structSel(x.X.Type(), x.Field, v.T), Typ: x.Type()})
	case *ssa.IndexAddr:
		f.vals[x] = f.indexAddr(x, st)
	case *ssa.Index:
		f.bind(x, f.index(x, st))
	case *ssa.Slice:
		f.bind(x, f.slice(x, st))
	case *ssa.Store:
		f.store(f.val(x.Addr), f.val(x.Val), st, x.Pos())
	case *ssa.MakeSlice:
		f.bind(x, f.makeSlice(x, st))
	case *ssa.MakeMap:
		m := x.Type().Underlying().(*types.Map)
		r := c.newRef(st, "map")
		d, v := c.mapHeaps(m)
		c.heapSet(st, d, "(store "+c.heapGet(st, d, c.heapSort[d])+" "+r+" ((as const (Array "+c.sortOf(m.Key())+" Bool)) false))")
		_ = v
		c.heapGet(st, v, c.heapSort[v])
		f.setMapLen(st, r, c.idxLit(0))
		f.bind(x, Val{T: r, Typ: x.Type()})
	case *ssa.MakeClosure:
		fn := x.Fn.(*ssa.Function)
		var bs []Val
		for _, b := range x.Bindings {
			bs = append(bs, f.val(b))
		}
		r := c.newRef(st, "closure")
		f.vals[x] = Val{T: r, Typ: x.Type(), Fn: fn, Bind: bs}
	case *ssa.Lookup:
		f.bind(x, f.lookup(x, st))
	case *ssa.MapUpdate:
		f.mapUpdate(x, st)
	case *ssa.Range:
		f.vals[x] = f.rangeInit(x, st)
	case *ssa.Next:
		f.vals[x] = f.next(x, st)
	case *ssa.Call:
		v := f.call(x, st)
		if _, isTup := x.Type().(*types.Tuple); isTup || v.T == "" {
			f.vals[x] = v
		} else {
			f.bind(x, v)
		}
	case *ssa.Defer, *ssa.Go, *ssa.Select, *ssa.Send:
		c.unsupported("%s: %T not in the verified subset", f.fn.Name(), ins)
		return false
	case *ssa.SliceToArrayPointer:
		c.unsupported("SliceToArrayPointer")
		f.vals[x] = f.freshVal("s2a", x.Type(), st, f.curGuard)
	default:
		c.unsupported("%s: instruction %T", f.fn.Name(), ins)
		if v, ok := ins.(ssa.Value); ok {
			f.vals[v] = f.freshVal("unk", v.Type(), st, f.curGuard)
		}
	}
	return true
}

func (c *Ctx) storeObjZero(st *State, r string, t types.Type) {
	c.storeObj(st, r, t, c.zero(t))
	c.ghostInit(st, r, t)
}

// ghostInit sets the ghost state of freshly allocated standard-library
// objects (part of the trusted stdlib model): a new bytes.Buffer is empty.
func (c *Ctx) ghostInit(st *State, r string, t types.Type) {
	if s, ok := t.Underlying().(*types.Struct); ok {
		if n, ok := t.(*types.Named); ok && n.Obj().Pkg() != nil && n.Obj().Pkg().Path() == "bytes" && n.Obj().Name() == "Buffer" {
			mi := "Int"
			zero := "0"
			if c.Mode == ModeBV {
				mi = "(_ BitVec 64)"
				zero = "(_ bv0 64)"
			}
			set := func(name, srt, val string) {
				h := c.ghostHeap(name, srt)
				c.heapSet(st, h, "(store "+c.heapGet(st, h, c.heapSort[h])+" "+r+" "+val+")")
			}
			set("spos", mi, zero)
			set("send", mi, zero)
			set("accepted", mi, zero)
			set("failed", "Bool", "false")
			c.declFun("uf$emptyBytes", nil, "Bytes")
			set("content", "Bytes", "uf$emptyBytes")
			return
		}
		if n, ok := t.(*types.Named); ok && n.Obj().Pkg() != nil && n.Obj().Pkg().Path() == "strings" && n.Obj().Name() == "Builder" {
			// a new strings.Builder holds the empty string
			if _, ok := c.W.Specs.Ghosts["bstr"]; ok {
				h := c.ghostHeap("bstr", "Str")
				c.heapSet(st, h, "(store "+c.heapGet(st, h, c.heapSort[h])+" "+r+" "+c.strLit("")+")")
			}
			return
		}
		for i := 0; i < s.NumFields(); i++ {
			if isStruct(s.Field(i).Type()) {
				c.ghostInit(st, c.subRef(t, i, r), s.Field(i).Type())
			}
		}
	}
}

func (f *Frame) doPanic(x *ssa.Panic, st *State) {
	if top := f.c.W.Specs.Contracts[funcKey(f.c.Fn)]; top != nil && top.MayPanic {
		return
	}
	if f.top && f.contract != nil && len(f.contract.PanicsIf) > 0 {
		// panic allowed exactly under the declared conditions
		env := f.specEnv(f.entry, f.entry)
		env.goal = true
		var cs []string
		for _, p := range f.contract.PanicsIf {
			t, err := env.boolTerm(p.E)
			if err != nil {
				f.c.unsupported("panics_if: %v", err)
				continue
			}
			cs = append(cs, t)
		}
		f.oblige("panic-only-if", f.srcKey(x.Pos(), "panic"), or(cs...), x.Pos(), "explicit panic")
		return
	}
	f.oblige("unreachable", f.srcKey(x.Pos(), "panic"), "false", x.Pos(), "explicit panic")
}

// ---- arithmetic -------------------------------------------------------------------

func constBig(v ssa.Value) (*big.Int, bool) {
	k, ok := v.(*ssa.Const)
	if !ok || k.Value == nil {
		return nil, false
	}
	n, ok := new(big.Int).SetString(k.Value.ExactString(), 10)
	return n, ok
}

func (f *Frame) binop(x *ssa.BinOp, st *State) Val {
	a, b := f.val(x.X), f.val(x.Y)
	var bk *big.Int
	if n, ok := constBig(x.Y); ok {
		bk = n
	}
	var ak *big.Int
	if n, ok := constBig(x.X); ok {
		ak = n
	}
	t, oblig := f.c.arith(x.Op, a, b, ak, bk, x.Type())
	if oblig != "" {
		f.oblige("div", f.srcKey(x.Pos(), "div"), oblig, x.Pos(), "division by zero / negative shift")
	}
	return Val{T: t, Typ: x.Type()}
}

// arith computes a op b. ak/bk are the constant values of the operands if
// known. Returns the term and an optional no-panic side condition.
func (c *Ctx) arith(op token.Token, a, b Val, ak, bk *big.Int, rt types.Type) (string, string) {
	at := a.Typ
	ii, isInt := intInfoOf(at)
	switch op {
	case token.EQL, token.NEQ:
		e := c.equalVals(a, b)
		if op == token.NEQ {
			e = not(e)
		}
		return e, ""
	}
	if bt, ok := at.Underlying().(*types.Basic); ok && bt.Info()&types.IsString != 0 {
		switch op {
		case token.ADD:
			return "(scat " + a.T + " " + b.T + ")", ""
		case token.LSS, token.LEQ, token.GTR, token.GEQ:
			c.declFun("strless", []string{"Str", "Str"}, "Bool")
			switch op {
			case token.LSS:
				return "(strless " + a.T + " " + b.T + ")", ""
			case token.GTR:
				return "(strless " + b.T + " " + a.T + ")", ""
			case token.LEQ:
				return "(not (strless " + b.T + " " + a.T + "))", ""
			default:
				return "(not (strless " + a.T + " " + b.T + "))", ""
			}
		}
	}
	if bt, ok := at.Underlying().(*types.Basic); ok && bt.Info()&types.IsBoolean != 0 {
		switch op {
		case token.LAND, token.AND:
			return and(a.T, b.T), ""
		case token.LOR, token.OR:
			return or(a.T, b.T), ""
		}
	}
	if !isInt {
		c.unsupported("binop %s on %s", op, at)
		n := c.fresh("binop")
		c.declConst(n, c.sortOf(rt))
		return q(n), ""
	}
	if c.Mode == ModeBV {
		return c.arithBV(op, a, b, ii, rt)
	}
	return c.arithInt(op, a, b, ak, bk, ii, rt)
}

func (c *Ctx) arithBV(op token.Token, a, b Val, ii intInfo, rt types.Type) (string, string) {
	s := func(sg, us string) string {
		if ii.signed {
			return sg
		}
		return us
	}
	bits := ii.bits
	if bits == 0 {
		bits = 64
	}
	bin := func(o string) string { return "(" + o + " " + a.T + " " + b.T + ")" }
	zero := bvLit(big.NewInt(0), bits)
	switch op {
	case token.ADD:
		return bin("bvadd"), ""
	case token.SUB:
		return bin("bvsub"), ""
	case token.MUL:
		return bin("bvmul"), ""
	case token.QUO:
		return bin(s("bvsdiv", "bvudiv")), not(eq(b.T, zero))
	case token.REM:
		return bin(s("bvsrem", "bvurem")), not(eq(b.T, zero))
	case token.AND:
		return bin("bvand"), ""
	case token.OR:
		return bin("bvor"), ""
	case token.XOR:
		return bin("bvxor"), ""
	case token.AND_NOT:
		return "(bvand " + a.T + " (bvnot " + b.T + "))", ""
	case token.SHL, token.SHR:
		bi, _ := intInfoOf(b.Typ)
		bb := bi.bits
		if bb == 0 {
			bb = 64
		}
		amt := b.T
		side := ""
		if bi.signed {
			side = "(bvsge " + b.T + " " + bvLit(big.NewInt(0), bb) + ")"
		}
		// bring the amount to the operand width, saturating
		var amtW string
		switch {
		case bb == bits:
			amtW = amt
		case bb < bits:
			amtW = fmt.Sprintf("((_ zero_extend %d) %s)", bits-bb, amt)
		default:
			big := fmt.Sprintf("(bvuge %s %s)", amt, bvLit(big.NewInt(int64(bits)), bb))
			amtW = fmt.Sprintf("(ite %s %s ((_ extract %d 0) %s))", big, bvLit(big2(int64(bits)), bits), bits-1, amt)
		}
		o := "bvshl"
		if op == token.SHR {
			o = s("bvashr", "bvlshr")
		}
		return "(" + o + " " + a.T + " " + amtW + ")", side
	case token.LSS:
		return bin(s("bvslt", "bvult")), ""
	case token.LEQ:
		return bin(s("bvsle", "bvule")), ""
	case token.GTR:
		return bin(s("bvsgt", "bvugt")), ""
	case token.GEQ:
		return bin(s("bvsge", "bvuge")), ""
	}
	c.unsupported("bv binop %s", op)
	return a.T, ""
}

func big2(n int64) *big.Int { return big.NewInt(n) }

// maskRuns decomposes a non-negative mask into runs of ones [lo,hi).
func maskRuns(m *big.Int) [][2]int {
	var runs [][2]int
	n := m.BitLen()
	i := 0
	for i < n {
		if m.Bit(i) == 1 {
			j := i
			for j < n && m.Bit(j) == 1 {
				j++
			}
			runs = append(runs, [2]int{i, j})
			i = j
		} else {
			i++
		}
	}
	return runs
}

func (c *Ctx) andConst(x string, m *big.Int, ii intInfo) (string, bool) {
	if m.Sign() < 0 {
		// negative constant mask on signed type: x & m = x - (x & ^m)
		nm := new(big.Int).Not(m) // = -m-1 >= 0
		inner, ok := c.andConst(x, nm, ii)
		if !ok {
			return "", false
		}
		return "(- " + x + " " + inner + ")", true
	}
	if ii.signed && ii.bits > 0 && m.BitLen() >= ii.bits {
		return "", false
	}
	if m.Sign() == 0 {
		return "0", true
	}
	var parts []string
	for _, r := range maskRuns(m) {
		lo, hi := r[0], r[1]
		t := x
		if lo > 0 {
			t = "(div " + t + " " + pow2(lo).String() + ")"
		}
		t = "(mod " + t + " " + pow2(hi-lo).String() + ")"
		if lo > 0 {
			t = "(* " + t + " " + pow2(lo).String() + ")"
		}
		parts = append(parts, t)
	}
	if len(parts) == 1 {
		return parts[0], true
	}
	s := "(+"
	for _, p := range parts {
		s += " " + p
	}
	return s + ")", true
}

func (c *Ctx) arithInt(op token.Token, a, b Val, ak, bk *big.Int, ii intInfo, rt types.Type) (string, string) {
	bin := func(o string) string { return "(" + o + " " + a.T + " " + b.T + ")" }
	uf := func(name string) string {
		fn := fmt.Sprintf("%s$%d%v", name, ii.bits, ii.signed)
		c.declFun(fn, []string{"Int", "Int"}, "Int")
		t := app(fn, a.T, b.T)
		return t
	}
	switch op {
	case token.ADD:
		return c.wrap1(bin("+"), rt), ""
	case token.SUB:
		return c.wrap1(bin("-"), rt), ""
	case token.MUL:
		return c.wrap(bin("*"), rt), ""
	case token.QUO:
		if !ii.signed {
			return bin("div"), not(eq(b.T, "0"))
		}
		return c.wrap(c.tdiv(a.T, b.T), rt), not(eq(b.T, "0"))
	case token.REM:
		if !ii.signed {
			return bin("mod"), not(eq(b.T, "0"))
		}
		return fmt.Sprintf("(- %s (* %s %s))", a.T, b.T, c.tdiv(a.T, b.T)), not(eq(b.T, "0"))
	case token.LSS:
		return bin("<"), ""
	case token.LEQ:
		return bin("<="), ""
	case token.GTR:
		return bin(">"), ""
	case token.GEQ:
		return bin(">="), ""
	case token.SHL:
		side := ""
		if bi, _ := intInfoOf(b.Typ); bi.signed && bk == nil {
			side = "(>= " + b.T + " 0)"
		}
		if bk != nil {
			if bk.Sign() < 0 {
				return "0", "false"
			}
			if ii.bits > 0 && bk.Cmp(big.NewInt(int64(ii.bits))) >= 0 {
				return "0", ""
			}
			return c.wrap("(* "+a.T+" "+pow2(int(bk.Int64())).String()+")", rt), ""
		}
		if ak != nil && ak.Sign() > 0 && ak.BitLen() == 1+int(trailingZeros(ak)) {
			// constant power of two shifted by a symbolic amount: pow2 table
			k0 := int(trailingZeros(ak))
			t := "0"
			for s := ii.bits - 1 - k0; s >= 0; s-- {
				val := c.wrap(pow2(s+k0).String(), rt)
				if ii.signed && s+k0 == ii.bits-1 {
					val = intLit(ii.min())
				}
				t = fmt.Sprintf("(ite (= %s %d) %s %s)", b.T, s, val, t)
			}
			return t, side
		}
		r := uf("shl")
		return r, side
	case token.SHR:
		side := ""
		if bi, _ := intInfoOf(b.Typ); bi.signed && bk == nil {
			side = "(>= " + b.T + " 0)"
		}
		if bk != nil {
			if bk.Sign() < 0 {
				return "0", "false"
			}
			if bk.Cmp(big.NewInt(70)) > 0 {
				bk = big.NewInt(70)
			}
			return "(div " + a.T + " " + pow2(int(bk.Int64())).String() + ")", ""
		}
		return uf("shr"), side
	case token.AND:
		if bk != nil {
			if t, ok := c.andConst(a.T, bk, ii); ok {
				return t, ""
			}
		}
		if ak != nil {
			if t, ok := c.andConst(b.T, ak, ii); ok {
				return t, ""
			}
		}
		return uf("band"), ""
	case token.AND_NOT:
		if bk != nil && ii.bits > 0 {
			m := new(big.Int).Not(bk)
			if !ii.signed {
				m = new(big.Int).And(m, ii.max())
			}
			if t, ok := c.andConst(a.T, m, ii); ok {
				return t, ""
			}
		}
		return uf("bandnot"), ""
	case token.OR:
		if bk != nil && bk.Sign() == 0 {
			return a.T, ""
		}
		if ak != nil && ak.Sign() == 0 {
			return b.T, ""
		}
		return uf("bor"), ""
	case token.XOR:
		return uf("bxor"), ""
	}
	c.unsupported("int binop %s", op)
	return a.T, ""
}

func trailingZeros(n *big.Int) uint {
	return n.TrailingZeroBits()
}

// tdiv is Go's truncated signed division.
func (c *Ctx) tdiv(a, b string) string {
	return fmt.Sprintf("(ite (>= %s 0) (ite (> %s 0) (div %s %s) (- (div %s (- %s)))) (ite (> %s 0) (- (div (- %s) %s)) (div (- %s) (- %s))))", a, b, a, b, a, b, b, a, b, a, b)
}

func (c *Ctx) equalVals(a, b Val) string {
	// comparison with nil constants of any type is handled by zero values
	if a.T == "" || b.T == "" {
		c.unsupported("comparison of location-only values")
		return "true"
	}
	return eq(a.T, b.T)
}

func (f *Frame) unop(x *ssa.UnOp, st *State) Val {
	c := f.c
	v := f.val(x.X)
	switch x.Op {
	case token.NOT:
		return Val{T: not(v.T), Typ: x.Type()}
	case token.SUB:
		if c.Mode == ModeBV {
			return Val{T: "(bvneg " + v.T + ")", Typ: x.Type()}
		}
		return Val{T: c.wrap1("(- "+v.T+")", x.Type()), Typ: x.Type()}
	case token.XOR:
		if c.Mode == ModeBV {
			return Val{T: "(bvnot " + v.T + ")", Typ: x.Type()}
		}
		ii, _ := intInfoOf(x.Type())
		if ii.signed {
			return Val{T: "(- (- " + v.T + ") 1)", Typ: x.Type()}
		}
		return Val{T: "(- " + intLit(ii.max()) + " " + v.T + ")", Typ: x.Type()}
	case token.MUL:
		return f.load(v, x.Type(), st, x.Pos())
	case token.ARROW:
		c.unsupported("channel receive")
	}
	c.unsupported("unop %s", x.Op)
	return f.freshVal("unop", x.Type(), st, f.curGuard)
}

func (f *Frame) load(p Val, t types.Type, st *State, pos token.Pos) Val {
	c := f.c
	var term string
	if p.Loc != nil {
		term = c.loadLoc(st, p.Loc)
	} else if p.T != "" {
		if !f.nonNil(p) {
			f.oblige("nil", f.srcKey(pos, "load"), not(eq(p.T, "0")), pos, "nil dereference")
		}
		term = c.loadObj(st, p.T, t)
	} else {
		c.unsupported("load through unsupported pointer")
		return f.freshVal("load", t, st, f.curGuard)
	}
	term = c.name(f.fn.Name()+".ld", term, c.sortOf(t))
	// references found in a heap version existed when that version was made
	front := c.allocTerm(st)
	if p.Loc != nil {
		if fr, ok := c.frontier[c.heapGet(st, p.Loc.Heap, c.heapSort[p.Loc.Heap])]; ok && fr != "" {
			front = fr
		}
	}
	c.assume(f.curGuard, c.typeFacts(term, t, front))
	return Val{T: term, Typ: t}
}

// nonNil reports pointers that are non-nil by construction.
func (f *Frame) nonNil(p Val) bool {
	for _, pre := range []string{"ref$", "|ref$", "glob$", "|glob$", "(+ ref$", "(+ |ref$", "(+ glob$", "(+ |glob$", "(+ (+ ref$", "(+ (+ |ref$"} {
		if strings.HasPrefix(p.T, pre) {
			return true
		}
	}
	return false
}

func (f *Frame) store(p Val, v Val, st *State, pos token.Pos) {
	c := f.c
	if v.T == "" && v.Fn == nil {
		c.unsupported("store of location-only value")
		return
	}
	if p.Loc != nil {
		f.frameCheck(p.Loc.Heap, p.Loc.Key, pos, "store")
		c.storeLoc(st, p.Loc, v.T)
		return
	}
	if p.T == "" {
		c.unsupported("store through unsupported pointer")
		return
	}
	if !f.nonNil(p) {
		f.oblige("nil", f.srcKey(pos, "store"), not(eq(p.T, "0")), pos, "nil dereference")
	}
	et := p.Typ.Underlying().(*types.Pointer).Elem()
	for _, t := range c.objTargets(p.T, et) {
		f.frameCheck(t.heap, t.key, pos, "store")
	}
	c.storeObj(st, p.T, et, v.T)
}

func (f *Frame) fieldAddr(x *ssa.FieldAddr, st *State) Val {
	c := f.c
	base := f.val(x.X)
	stt := x.X.Type().Underlying().(*types.Pointer).Elem()
	ft := stt.Underlying().(*types.Struct).Field(x.Field).Type()
	if base.Loc != nil {
		l := *base.Loc
		l.Path = append(append([]acc{}, l.Path...), acc{Field: x.Field, STyp: stt})
		l.Typ = ft
		return Val{Typ: x.Type(), Loc: &l}
	}
	if base.T == "" {
		c.unsupported("fieldaddr on unsupported pointer")
		return Val{Typ: x.Type()}
	}
	if !f.nonNil(base) {
		f.oblige("nil", f.srcKey(x.Pos(), "field "+stt.Underlying().(*types.Struct).Field(x.Field).Name()), not(eq(base.T, "0")), x.Pos(), "nil dereference")
	}
	if isStruct(ft) {
		return Val{T: c.subRef(stt, x.Field, base.T), Typ: x.Type()}
	}
	h, _ := c.fieldHeap(stt, x.Field)
	c.heapGet(st, h, c.heapSort[h])
	return Val{Typ: x.Type(), Loc: &Loc{Heap: h, Key: base.T, Typ: ft}}
}

func (c *Ctx) ilt(a, b string) string {
	if c.Mode == ModeBV {
		return "(bvslt " + a + " " + b + ")"
	}
	return "(< " + a + " " + b + ")"
}
func (c *Ctx) ile(a, b string) string {
	if c.Mode == ModeBV {
		return "(bvsle " + a + " " + b + ")"
	}
	return "(<= " + a + " " + b + ")"
}
func (c *Ctx) iadd(a, b string) string {
	if c.Mode == ModeBV {
		return "(bvadd " + a + " " + b + ")"
	}
	if b == "0" {
		return a
	}
	if a == "0" {
		return b
	}
	return "(+ " + a + " " + b + ")"
}
// eidx is the element index off+i written with the uninterpreted-looking
// function ix (axiom: ix(a,b) = a+b) so that E-matching sees a stable shape.
func (c *Ctx) eidx(off, i string) string {
	if off == c.idxLit(0) {
		return i
	}
	if i == c.idxLit(0) {
		return off
	}
	return "(ix " + off + " " + i + ")"
}

func (c *Ctx) isub(a, b string) string {
	if c.Mode == ModeBV {
		return "(bvsub " + a + " " + b + ")"
	}
	if b == "0" {
		return a
	}
	return "(- " + a + " " + b + ")"
}

// toIdx converts an integer value to the index sort (int: identity; bv: to 64 bits).
func (c *Ctx) toIdx(v Val) string {
	if c.Mode != ModeBV {
		return v.T
	}
	ii, _ := intInfoOf(v.Typ)
	if ii.bits == 64 || ii.bits == 0 {
		return v.T
	}
	if ii.signed {
		return fmt.Sprintf("((_ sign_extend %d) %s)", 64-ii.bits, v.T)
	}
	return fmt.Sprintf("((_ zero_extend %d) %s)", 64-ii.bits, v.T)
}

func (f *Frame) inBounds(i, n string) string {
	c := f.c
	return and(c.ile(c.idxLit(0), i), c.ilt(i, n))
}

func (f *Frame) indexAddr(x *ssa.IndexAddr, st *State) Val {
	c := f.c
	base := f.val(x.X)
	i := c.toIdx(f.val(x.Index))
	switch u := x.X.Type().Underlying().(type) {
	case *types.Slice:
		f.oblige("bounds", f.srcKey(x.Pos(), "index"), f.inBounds(i, "(sl.len "+base.T+")"), x.Pos(), "index out of range")
		h, _ := c.memHeap(u.Elem())
		c.heapGet(st, h, c.heapSort[h])
		return Val{Typ: x.Type(), Loc: &Loc{Heap: h, Key: "(sl.base " + base.T + ")", Path: []acc{{Field: -1, Idx: c.eidx("(sl.off "+base.T+")", i)}}, Typ: u.Elem()}}
	case *types.Pointer:
		arr := u.Elem().Underlying().(*types.Array)
		f.oblige("bounds", f.srcKey(x.Pos(), "index"), f.inBounds(i, c.idxLit(arr.Len())), x.Pos(), "index out of range")
		if base.Loc != nil {
			l := *base.Loc
			l.Path = append(append([]acc{}, l.Path...), acc{Field: -1, Idx: i})
			l.Typ = arr.Elem()
			return Val{Typ: x.Type(), Loc: &l}
		}
		h, _ := c.memHeap(arr.Elem())
		c.heapGet(st, h, c.heapSort[h])
		return Val{Typ: x.Type(), Loc: &Loc{Heap: h, Key: base.T, Path: []acc{{Field: -1, Idx: i}}, Typ: arr.Elem()}}
	}
	c.unsupported("indexaddr on %s", x.X.Type())
	return Val{Typ: x.Type()}
}

func (f *Frame) index(x *ssa.Index, st *State) Val {
	c := f.c
	base := f.val(x.X)
	i := c.toIdx(f.val(x.Index))
	switch u := x.X.Type().Underlying().(type) {
	case *types.Array:
		f.oblige("bounds", f.srcKey(x.Pos(), "index"), f.inBounds(i, c.idxLit(u.Len())), x.Pos(), "index out of range")
		return Val{T: "(select " + base.T + " " + i + ")", Typ: x.Type()}
	case *types.Basic: // string
		f.oblige("bounds", f.srcKey(x.Pos(), "index"), f.inBounds(i, "(slen "+base.T+")"), x.Pos(), "index out of range")
		t := c.name("ch", "(sat "+base.T+" "+i+")", c.sortOf(x.Type()))
		c.assume(f.curGuard, c.typeFacts(t, x.Type(), ""))
		return Val{T: t, Typ: x.Type()}
	}
	c.unsupported("index on %s", x.X.Type())
	return f.freshVal("index", x.Type(), st, f.curGuard)
}

func (f *Frame) slice(x *ssa.Slice, st *State) Val {
	c := f.c
	base := f.val(x.X)
	var lo, hi, mx string
	if x.Low != nil {
		lo = c.toIdx(f.val(x.Low))
	} else {
		lo = c.idxLit(0)
	}
	if x.High != nil {
		hi = c.toIdx(f.val(x.High))
	}
	if x.Max != nil {
		mx = c.toIdx(f.val(x.Max))
	}
	key := f.srcKey(x.Pos(), "slice")
	switch u := x.X.Type().Underlying().(type) {
	case *types.Slice:
		ln, cp := "(sl.len "+base.T+")", "(sl.cap "+base.T+")"
		if hi == "" {
			hi = ln
		}
		limit := cp
		if c.strict {
			limit = ln
		}
		if mx == "" {
			mx = cp
			f.oblige("bounds", key, and(c.ile(c.idxLit(0), lo), c.ile(lo, hi), c.ile(hi, limit)), x.Pos(), "slice bounds out of range")
		} else {
			f.oblige("bounds", key, and(c.ile(c.idxLit(0), lo), c.ile(lo, hi), c.ile(hi, mx), c.ile(mx, cp)), x.Pos(), "slice bounds out of range")
		}
		return Val{T: c.mkSlice("(sl.base "+base.T+")", c.iadd("(sl.off "+base.T+")", lo), c.isub(hi, lo), c.isub(mx, lo)), Typ: x.Type()}
	case *types.Basic: // string
		ln := "(slen " + base.T + ")"
		if hi == "" {
			hi = ln
		}
		f.oblige("bounds", key, and(c.ile(c.idxLit(0), lo), c.ile(lo, hi), c.ile(hi, ln)), x.Pos(), "slice bounds out of range")
		if lo == c.idxLit(0) && x.High == nil {
			return Val{T: base.T, Typ: x.Type()}
		}
		t := c.name("substr", "(ssub "+base.T+" "+lo+" "+hi+")", "Str")
		c.assume(f.curGuard, "(= (slen "+t+") "+c.isub(hi, lo)+")")
		return Val{T: t, Typ: x.Type()}
	case *types.Pointer:
		arr := u.Elem().Underlying().(*types.Array)
		n := c.idxLit(arr.Len())
		if hi == "" {
			hi = n
		}
		if mx == "" {
			mx = n
		}
		f.oblige("bounds", key, and(c.ile(c.idxLit(0), lo), c.ile(lo, hi), c.ile(hi, mx), c.ile(mx, n)), x.Pos(), "slice bounds out of range")
		if base.Loc != nil || base.T == "" {
			c.unsupported("slice of array not addressable as object")
			return f.freshVal("slice", x.Type(), st, f.curGuard)
		}
		if !f.nonNil(base) {
			f.oblige("nil", f.srcKey(x.Pos(), "slice-array"), not(eq(base.T, "0")), x.Pos(), "nil dereference")
		}
		h, _ := c.memHeap(arr.Elem())
		c.heapGet(st, h, c.heapSort[h])
		return Val{T: c.mkSlice(base.T, lo, c.isub(hi, lo), c.isub(mx, lo)), Typ: x.Type()}
	}
	c.unsupported("slice of %s", x.X.Type())
	return f.freshVal("slice", x.Type(), st, f.curGuard)
}

func (f *Frame) makeSlice(x *ssa.MakeSlice, st *State) Val {
	c := f.c
	ln := c.toIdx(f.val(x.Len))
	cp := c.toIdx(f.val(x.Cap))
	elem := x.Type().Underlying().(*types.Slice).Elem()
	var maxLen string
	if c.Mode == ModeBV {
		maxLen = bvLit(pow2(48), 64)
	} else {
		maxLen = maxLenStr
	}
	f.oblige("alloc", f.srcKey(x.Pos(), "make"), and(c.ile(c.idxLit(0), ln), c.ile(ln, cp), c.ile(cp, maxLen)), x.Pos(), "make: len out of range")
	r := c.newRef(st, "mk")
	h, srt := c.memHeap(elem)
	arrSort := "(Array " + c.idxSort() + " " + c.sortOf(elem) + ")"
	c.heapSet(st, h, "(store "+c.heapGet(st, h, srt)+" "+r+" ((as const "+arrSort+") "+c.zero(elem)+"))")
	return Val{T: c.mkSlice(r, c.idxLit(0), ln, cp), Typ: x.Type()}
}

// ---- conversions ----------------------------------------------------------------

func (f *Frame) convert(v Val, to types.Type, st *State, pos token.Pos) Val {
	c := f.c
	from := v.Typ
	fi, fok := intInfoOf(from)
	ti, tok := intInfoOf(to)
	if fok && tok {
		return Val{T: c.convInt(v.T, fi, ti, to), Typ: to}
	}
	fb, _ := from.Underlying().(*types.Basic)
	tb, _ := to.Underlying().(*types.Basic)
	_, fromSlice := from.Underlying().(*types.Slice)
	_, toSlice := to.Underlying().(*types.Slice)
	switch {
	case fb != nil && fb.Info()&types.IsString != 0 && toSlice:
		// []byte(s): fresh array holding the bytes of s
		if c.Mode == ModeBV {
			c.unsupported("string conversion in bv mode")
			return f.freshVal("conv", to, st, f.curGuard)
		}
		r := c.newRef(st, "bytes")
		elem := to.Underlying().(*types.Slice).Elem()
		h, srt := c.memHeap(elem)
		c.declFun("str2arr", []string{"Str"}, "(Array Int Int)")
		c.heapSet(st, h, "(store "+c.heapGet(st, h, srt)+" "+r+" (str2arr "+v.T+"))")
		c.usedUF["str2arr"] = true
		// the bytes of the new slice are the bytes of the string
		c.declMkbytes()
		c.declFun("strbytes", []string{"Str"}, "Bytes")
		c.assert("(= (mkbytes (str2arr " + v.T + ") 0 (slen " + v.T + ")) (strbytes " + v.T + "))")
		c.assume(f.curGuard, fmt.Sprintf("(forall ((i!s Int)) (! (= (select (str2arr %s) i!s) (sat %s i!s)) :pattern ((select (str2arr %s) i!s))))", v.T, v.T, v.T))
		return Val{T: c.mkSlice(r, "0", "(slen "+v.T+")", "(slen "+v.T+")"), Typ: to}
	case fromSlice && tb != nil && tb.Info()&types.IsString != 0:
		if c.Mode == ModeBV {
			c.unsupported("string conversion in bv mode")
			return f.freshVal("conv", to, st, f.curGuard)
		}
		elem := from.Underlying().(*types.Slice).Elem()
		h, srt := c.memHeap(elem)
		c.declFun("arr2str", []string{"(Array Int Int)", "Int", "Int"}, "Str")
		c.usedUF["arr2str"] = true
		arrT := "(select " + c.heapGet(st, h, srt) + " (sl.base " + v.T + "))"
		t := c.name("str", "(arr2str "+arrT+" (sl.off "+v.T+") (sl.len "+v.T+"))", "Str")
		c.assume(f.curGuard, "(= (slen "+t+") (sl.len "+v.T+"))")
		c.declMkbytes()
		c.declFun("strbytes", []string{"Str"}, "Bytes")
		c.assert("(= (strbytes " + t + ") (mkbytes " + arrT + " (sl.off " + v.T + ") (sl.len " + v.T + ")))")
		c.assume(f.curGuard, fmt.Sprintf("(forall ((i!s Int)) (! (=> (and (<= 0 i!s) (< i!s (sl.len %s))) (= (sat %s i!s) (select %s (+ (sl.off %s) i!s)))) :pattern ((sat %s i!s))))", v.T, t, arrT, v.T, t))
		return Val{T: t, Typ: to}
	case fok && tb != nil && tb.Info()&types.IsString != 0:
		c.declFun("rune2str", []string{"Int"}, "Str")
		return Val{T: "(rune2str " + v.T + ")", Typ: to}
	}
	if types.Identical(from.Underlying(), to.Underlying()) {
		v.Typ = to
		return v
	}
	c.unsupported("convert %s -> %s", from, to)
	return f.freshVal("conv", to, st, f.curGuard)
}

func (c *Ctx) convInt(x string, fi, ti intInfo, to types.Type) string {
	if c.Mode == ModeBV {
		fb, tb := fi.bits, ti.bits
		if fb == 0 {
			fb = 64
		}
		if tb == 0 {
			tb = 64
		}
		switch {
		case fb == tb:
			return x
		case fb > tb:
			return fmt.Sprintf("((_ extract %d 0) %s)", tb-1, x)
		case fi.signed:
			return fmt.Sprintf("((_ sign_extend %d) %s)", tb-fb, x)
		default:
			return fmt.Sprintf("((_ zero_extend %d) %s)", tb-fb, x)
		}
	}
	if ti.bits == 0 {
		return x
	}
	if fi.bits != 0 && fi.signed == ti.signed && fi.bits <= ti.bits {
		return x
	}
	if fi.bits != 0 && !fi.signed && ti.signed && fi.bits < ti.bits {
		return x
	}
	if fi.bits != 0 && fi.bits == ti.bits {
		// same width, different signedness: off by at most one modulus
		return c.wrap1(x, to)
	}
	return c.wrap(x, to)
}

// ---- interfaces ---------------------------------------------------------------

func (c *Ctx) box(v Val) string {
	id := c.typeID(v.Typ)
	switch v.Typ.Underlying().(type) {
	case *types.Pointer, *types.Map, *types.Signature, *types.Chan:
		return "(mk-iface " + id + " " + v.T + ")"
	case *types.Interface:
		return v.T
	}
	srt := c.sortOf(v.Typ)
	bx := "box$" + typeKey(v.Typ)
	ub := "unbox$" + typeKey(v.Typ)
	c.declFun(bx, []string{srt}, "Int")
	c.declFun(ub, []string{"Int"}, srt)
	t := app(bx, v.T)
	c.assert("(= " + app(ub, t) + " " + v.T + ")")
	return "(mk-iface " + id + " " + t + ")"
}

func (c *Ctx) unbox(i string, t types.Type) string {
	switch t.Underlying().(type) {
	case *types.Pointer, *types.Map, *types.Signature, *types.Chan:
		return "(if.ref " + i + ")"
	}
	srt := c.sortOf(t)
	ub := "unbox$" + typeKey(t)
	bx := "box$" + typeKey(t)
	c.declFun(bx, []string{srt}, "Int")
	c.declFun(ub, []string{"Int"}, srt)
	return app(ub, "(if.ref "+i+")")
}

func (f *Frame) typeAssert(x *ssa.TypeAssert, st *State) Val {
	c := f.c
	v := f.val(x.X)
	var ok, val string
	if _, isIface := x.AssertedType.Underlying().(*types.Interface); isIface {
		fn := "implements$" + typeKey(x.AssertedType)
		c.declFun(fn, []string{"Int"}, "Bool")
		ok = and(not(eq("(if.typ "+v.T+")", "0")), app(fn, "(if.typ "+v.T+")"))
		val = v.T
	} else {
		ok = eq("(if.typ "+v.T+")", c.typeID(x.AssertedType))
		val = c.unbox(v.T, x.AssertedType)
	}
	if x.CommaOk {
		okn := c.name("ok", ok, "Bool")
		zv := c.zero(x.AssertedType)
		valn := c.name("ta", ite(okn, val, zv), c.sortOf(x.AssertedType))
		c.assume(and(f.curGuard, okn), c.typeFacts(valn, x.AssertedType, c.allocTerm(st)))
		return Val{Typ: x.Type(), Tup: []Val{{T: valn, Typ: x.AssertedType}, {T: okn, Typ: types.Typ[types.Bool]}}}
	}
	f.oblige("typeassert", f.srcKey(x.Pos(), "typeassert"), ok, x.Pos(), "type assertion")
	valn := c.name("ta", val, c.sortOf(x.AssertedType))
	c.assume(f.curGuard, c.typeFacts(valn, x.AssertedType, c.allocTerm(st)))
	return Val{T: valn, Typ: x.AssertedType}
}

// ---- maps -----------------------------------------------------------------------

func (f *Frame) mapLenHeap() string {
	h := "MapLen"
	f.c.heapSort[h] = "(Array Int " + f.c.idxSort() + ")"
	return h
}

func (f *Frame) setMapLen(st *State, r, n string) {
	h := f.mapLenHeap()
	f.c.heapSet(st, h, "(store "+f.c.heapGet(st, h, f.c.heapSort[h])+" "+r+" "+n+")")
}

func (f *Frame) lookup(x *ssa.Lookup, st *State) Val {
	c := f.c
	m := f.val(x.X)
	k := f.val(x.Index)
	mt, isMap := x.X.Type().Underlying().(*types.Map)
	if !isMap {
		// string index
		i := c.toIdx(k)
		f.oblige("bounds", f.srcKey(x.Pos(), "index"), f.inBounds(i, "(slen "+m.T+")"), x.Pos(), "index out of range")
		t := c.name("ch", "(sat "+m.T+" "+i+")", c.sortOf(types.Typ[types.Byte]))
		c.assume(f.curGuard, c.typeFacts(t, types.Typ[types.Byte], ""))
		return Val{T: t, Typ: types.Typ[types.Byte]}
	}
	d, v := c.mapHeaps(mt)
	dom := "(select (select " + c.heapGet(st, d, c.heapSort[d]) + " " + m.T + ") " + k.T + ")"
	// a nil map has an empty domain
	okT := c.name("mapok", and(not(eq(m.T, "0")), dom), "Bool")
	raw := "(select (select " + c.heapGet(st, v, c.heapSort[v]) + " " + m.T + ") " + k.T + ")"
	valT := c.name("mapval", ite(okT, raw, c.zero(mt.Elem())), c.sortOf(mt.Elem()))
	c.assume(f.curGuard, c.typeFacts(valT, mt.Elem(), c.allocTerm(st)))
	if x.CommaOk {
		return Val{Typ: x.Type(), Tup: []Val{{T: valT, Typ: mt.Elem()}, {T: okT, Typ: types.Typ[types.Bool]}}}
	}
	return Val{T: valT, Typ: mt.Elem()}
}

func (f *Frame) mapUpdate(x *ssa.MapUpdate, st *State) {
	c := f.c
	m := f.val(x.Map)
	k := f.val(x.Key)
	v := f.val(x.Value)
	mt := x.Map.Type().Underlying().(*types.Map)
	f.oblige("nil", f.srcKey(x.Pos(), "mapupdate"), not(eq(m.T, "0")), x.Pos(), "assignment to entry in nil map")
	_ = c
	f.mapStore(st, mt, m.T, k.T, v.T, x.Pos())
}

// Range/Next: iteration in arbitrary order. The iterator is a ghost object
// with a "visited" set (maps) or a position (strings).
func (f *Frame) rangeInit(x *ssa.Range, st *State) Val {
	c := f.c
	v := f.val(x.X)
	r := c.newRef(st, "iter")
	if mt, ok := x.X.Type().Underlying().(*types.Map); ok {
		h := "IterSeen$" + typeKey(mt.Key())
		c.heapSort[h] = "(Array Int (Array " + c.sortOf(mt.Key()) + " Bool))"
		c.heapSet(st, h, "(store "+c.heapGet(st, h, c.heapSort[h])+" "+r+" ((as const (Array "+c.sortOf(mt.Key())+" Bool)) false))")
		// number of keys produced so far
		c.heapSort["IterCount"] = "(Array Int Int)"
		c.heapSet(st, "IterCount", "(store "+c.heapGet(st, "IterCount", "(Array Int Int)")+" "+r+" 0)")
	} else {
		h := "IterPos"
		c.heapSort[h] = "(Array Int Int)"
		c.heapSet(st, h, "(store "+c.heapGet(st, h, c.heapSort[h])+" "+r+" 0)")
	}
	return Val{T: r, Typ: x.Type(), Bind: []Val{v}}
}

func (f *Frame) next(x *ssa.Next, st *State) Val {
	c := f.c
	it := f.val(x.Iter)
	rng, _ := x.Iter.(*ssa.Range)
	tup := x.Type().(*types.Tuple)
	if rng == nil || len(it.Bind) == 0 {
		c.unsupported("next on unknown iterator")
		return f.freshVal("next", x.Type(), st, f.curGuard)
	}
	src := it.Bind[0]
	if x.IsString {
		if c.Mode == ModeBV {
			c.unsupported("string range in bv mode")
			return f.freshVal("next", x.Type(), st, f.curGuard)
		}
		h := "IterPos"
		pos := c.name("pos", "(select "+c.heapGet(st, h, c.heapSort[h])+" "+it.T+")", "Int")
		ok := c.name("ok", "(< "+pos+" (slen "+src.T+"))", "Bool")
		w := c.fresh("width")
		c.declConst(w, "Int")
		rn := c.fresh("rune")
		c.declConst(rn, "Int")
		ch := "(sat " + src.T + " " + pos + ")"
		// ASCII bytes decode to themselves with width 1; otherwise width 1..4, rune >= 0x80 (or RuneError).
		c.assume(and(f.curGuard, ok), fmt.Sprintf("(and (<= 0 %s) (<= %s 255) (ite (< %s 128) (and (= %s 1) (= %s %s)) (and (<= 1 %s) (<= %s 4) (>= %s 128) (<= %s 1114111))) (<= (+ %s %s) (slen %s)))", ch, ch, ch, q(w), q(rn), ch, q(w), q(w), q(rn), q(rn), pos, q(w), src.T))
		c.heapSet(st, h, "(store "+c.heapGet(st, h, c.heapSort[h])+" "+it.T+" "+ite(ok, "(+ "+pos+" "+q(w)+")", pos)+")")
		return Val{Typ: x.Type(), Tup: []Val{{T: ok, Typ: tup.At(0).Type()}, {T: pos, Typ: tup.At(1).Type()}, {T: q(rn), Typ: tup.At(2).Type()}}}
	}
	mt := rng.X.Type().Underlying().(*types.Map)
	h := "IterSeen$" + typeKey(mt.Key())
	seen := "(select " + c.heapGet(st, h, c.heapSort[h]) + " " + it.T + ")"
	d, vh := c.mapHeaps(mt)
	dom := "(select " + c.heapGet(st, d, c.heapSort[d]) + " " + src.T + ")"
	okn := c.fresh("ok")
	c.declConst(okn, "Bool")
	kv := f.freshVal("key", mt.Key(), st, f.curGuard)
	val := c.name("val", "(select (select "+c.heapGet(st, vh, c.heapSort[vh])+" "+src.T+") "+kv.T+")", c.sortOf(mt.Elem()))
	c.assume(f.curGuard, c.typeFacts(val, mt.Elem(), c.allocTerm(st)))
	// ok: the key is in the map and was not visited before; !ok: every key visited
	c.assume(and(f.curGuard, q(okn)), and(not(eq(src.T, "0")), "(select "+dom+" "+kv.T+")", not("(select "+seen+" "+kv.T+")")))
	ks := c.sortOf(mt.Key())
	c.assume(and(f.curGuard, not(q(okn))), fmt.Sprintf("(forall ((k!q %s)) (! (=> (and (not (= %s 0)) (select %s k!q)) (select %s k!q)) :pattern ((select %s k!q))))", ks, src.T, dom, seen, dom))
	c.heapSet(st, h, "(store "+c.heapGet(st, h, c.heapSort[h])+" "+it.T+" "+ite(q(okn), "(store "+seen+" "+kv.T+" true)", seen)+")")
	// a range over a map produces every key exactly once: the count of keys
	// produced stays below len(m) while keys remain and equals it at the end
	if c.Mode == ModeInt {
		c.heapSort["IterCount"] = "(Array Int Int)"
		cnt := c.name("itercnt", "(select "+c.heapGet(st, "IterCount", "(Array Int Int)")+" "+it.T+")", "Int")
		lh := f.mapLenHeap()
		mlen := ite(eq(src.T, "0"), "0", "(select "+c.heapGet(st, lh, c.heapSort[lh])+" "+src.T+")")
		c.assume(f.curGuard, "(and (<= 0 "+mlen+") (<= "+mlen+" "+maxLenStr+") (<= 0 "+cnt+") (<= "+cnt+" "+mlen+"))")
		c.assume(and(f.curGuard, q(okn)), "(< "+cnt+" "+mlen+")")
		c.assume(and(f.curGuard, not(q(okn))), eq(cnt, mlen))
		c.heapSet(st, "IterCount", "(store "+c.heapGet(st, "IterCount", "(Array Int Int)")+" "+it.T+" "+ite(q(okn), "(+ "+cnt+" 1)", cnt)+")")
	}
	return Val{Typ: x.Type(), Tup: []Val{{T: q(okn), Typ: tup.At(0).Type()}, kv, {T: val, Typ: mt.Elem()}}}
}


// anchoredAsserts: an "assert ... before "text" :: e" clause of the contract
// becomes an obligation at the first instruction of the statement whose
// source text starts with text (only in the function under verification, not
// in inlined callees).
func (f *Frame) anchoredAsserts(ins ssa.Instruction, st *State) {
	if !f.top || f.contract == nil || len(f.contract.Asserts) == 0 {
		return
	}
	switch ins.(type) {
	case *ssa.MapUpdate, *ssa.Store, ssa.CallInstruction, *ssa.Return, *ssa.BinOp:
		// (a comparison anchors the "if" it belongs to: ssa.If itself has no position)
	default:
		return
	}
	pos := ins.Pos()
	if r, ok := ins.(*ssa.Return); ok {
		pos = r.Pos()
	}
	if !pos.IsValid() {
		return
	}
	c := f.c
	txt := strings.TrimSpace(c.W.sourceSnippet(pos))
	for _, a := range f.contract.Asserts {
		if !strings.HasPrefix(txt, a.At) {
			continue
		}
		key := a.Tag + "@" + txt
		if f.assertDone == nil {
			f.assertDone = map[string]bool{}
		}
		if f.assertDone[key] {
			continue
		}
		f.assertDone[key] = true
		env := f.specEnv(st, f.entry)
		env.at = f.curBlock
		env.goal = true
		f.atInstr = instrIndex(ins)
		t, err := env.boolTerm(a.E)
		f.atInstr = -1
		if err != nil {
			c.unsupported("assert %q: %v", a.Text, err)
			continue
		}
		name := a.Tag
		if name == "" {
			name = a.At
		}
		f.oblige("assert", name, t, pos, a.Text)
	}
}
