package main

// Package-level variables: initial values read off the package initialiser,
// and the whole-repository scan for writes after initialisation (C18).

import (
	"fmt"
	"go/constant"
	"go/types"
	"math/big"
	"sort"
	"strings"

	"golang.org/x/tools/go/ssa"
	"golang.org/x/tools/go/ssa/ssautil"
)

type globalWrite struct {
	Global string
	Func   string
	Pos    string
	How    string
}

// scanGlobalWrites finds every instruction outside package initialisers that
// may write to a package-level variable or to memory reachable from one by a
// single load (slice element, map entry, struct field).
func (w *World) scanGlobalWrites() []globalWrite {
	var out []globalWrite
	rootGlobal := func(v ssa.Value) *ssa.Global {
		for depth := 0; depth < 8; depth++ {
			switch x := v.(type) {
			case *ssa.Global:
				return x
			case *ssa.FieldAddr:
				v = x.X
			case *ssa.IndexAddr:
				v = x.X
			case *ssa.UnOp:
				v = x.X
			case *ssa.Slice:
				v = x.X
			case *ssa.ChangeType:
				v = x.X
			default:
				return nil
			}
		}
		return nil
	}
	// the address of a package-level variable (or of a field / element of
	// one) handed to a call: the callee may write through it (sync.Pool,
	// sync.Once, bytes.Buffer, ... kept in a global)
	addrOfGlobal := func(v ssa.Value) *ssa.Global {
		for depth := 0; depth < 8; depth++ {
			switch x := v.(type) {
			case *ssa.Global:
				return x
			case *ssa.FieldAddr:
				v = x.X
			case *ssa.IndexAddr:
				v = x.X
			default:
				return nil
			}
		}
		return nil
	}
	for fn := range ssautil.AllFunctions(w.Prog) {
		if fn.Pkg == nil || !strings.HasPrefix(fn.Pkg.Pkg.Path(), w.ModPath) {
			continue
		}
		isInit := fn.Name() == "init" || strings.HasPrefix(fn.Name(), "init#")
		if isInit {
			continue
		}
		for _, b := range fn.Blocks {
			for _, ins := range b.Instrs {
				var g *ssa.Global
				how := ""
				switch x := ins.(type) {
				case *ssa.Store:
					g = rootGlobal(x.Addr)
					how = "store"
				case *ssa.MapUpdate:
					g = rootGlobal(x.Map)
					how = "map update"
				case *ssa.Call:
					if bi, ok := x.Call.Value.(*ssa.Builtin); ok && (bi.Name() == "append" || bi.Name() == "copy" || bi.Name() == "delete") && len(x.Call.Args) > 0 {
						g = rootGlobal(x.Call.Args[0])
						how = bi.Name()
						if bi.Name() == "append" && g != nil {
							// append to a global slice writes in place only if cap > len; the
							// initial-value facts establish cap == len for literal initialisers
							how = "append (in place iff cap>len)"
						}
					}
				}
				if cl, ok := ins.(ssa.CallInstruction); ok && g == nil {
					cc := cl.Common()
					var vals []ssa.Value
					if cc.IsInvoke() {
						vals = append(vals, cc.Value)
					}
					vals = append(vals, cc.Args...)
					for _, a := range vals {
						if ag := addrOfGlobal(a); ag != nil {
							g = ag
							how = "address passed to a call"
							if callee := cc.StaticCallee(); callee != nil {
								how += " of " + callee.String()
							}
						}
					}
				}
				if g != nil && g.Pkg != nil && strings.HasPrefix(g.Pkg.Pkg.Path(), w.ModPath) && !strings.HasPrefix(g.Name(), "init$") {
					out = append(out, globalWrite{Global: g.Pkg.Pkg.Path() + "." + g.Name(), Func: funcKey(fn), Pos: w.posString(ins.Pos()), How: how})
				}
			}
		}
	}
	sort.Slice(out, func(i, j int) bool { return out[i].Global+out[i].Pos < out[j].Global+out[j].Pos })
	return out
}

func (w *World) mutableGlobals() map[string]bool {
	if w.mutable != nil {
		return w.mutable
	}
	w.mutable = map[string]bool{}
	for _, gw := range w.scanGlobalWrites() {
		if strings.HasPrefix(gw.How, "append") {
			continue
		}
		w.mutable[gw.Global] = true
	}
	return w.mutable
}

// globalFacts asserts what the package initialiser establishes about g, for
// globals that are never written afterwards.
func (c *Ctx) globalFacts(g *ssa.Global, ref string) {
	w := c.W
	if g.Pkg == nil || w.mutableGlobals()[g.Pkg.Pkg.Path()+"."+g.Name()] {
		return
	}
	if (g.Pkg.Pkg.Path() == "encoding/base64" || g.Pkg.Pkg.Path() == "encoding/base32") && strings.HasSuffix(g.Name(), "Encoding") {
		// the four standard encodings are non-nil package-level pointers
		t0 := g.Type().(*types.Pointer).Elem()
		h, srt := c.cellHeap(t0)
		id := 80000 + w.globalIDs["glob$"+mangle(g.Pkg.Pkg.Path())+"."+g.Name()]
		c.Decls = append(c.Decls, "(assert "+eq("(select "+c.heapInit(h, srt)+" "+ref+")", fmt.Sprintf("(* %d %s)", id, refStride))+")")
		return
	}
	init := g.Pkg.Func("init")
	if init == nil {
		return
	}
	t := g.Type().(*types.Pointer).Elem()
	var val ssa.Value
	n := 0
	for _, b := range init.Blocks {
		for _, ins := range b.Instrs {
			if s, ok := ins.(*ssa.Store); ok && s.Addr == ssa.Value(g) {
				val = s.Val
				n++
			}
		}
	}
	add := func(s string) { c.Decls = append(c.Decls, "(assert "+s+")") }
	cell := func() string {
		h, srt := c.cellHeap(t)
		return "(select " + c.heapInit(h, srt) + " " + ref + ")"
	}
	if n == 0 {
		// zero value (no initialiser) unless assigned in an explicit init function
		return
	}
	if n != 1 {
		return
	}
	switch v := val.(type) {
	case *ssa.Const:
		if isStruct(t) || isArray(t) {
			return
		}
		add(eq(cell(), c.constVal(v).T))
	case *ssa.Call:
		if callee := v.Call.StaticCallee(); callee != nil {
			k := funcKey(callee)
			if k == "regexp.MustCompile" {
				id := 70000 + w.globalIDs["glob$"+mangle(g.Pkg.Pkg.Path())+"."+g.Name()]
				add(eq(cell(), fmt.Sprintf("(* %d %s)", id, refStride)))
				// the pattern it was compiled from, when that is a constant
				// (specifications of MatchString may speak about particular patterns)
				if len(v.Call.Args) == 1 {
					if pc, ok := v.Call.Args[0].(*ssa.Const); ok && pc.Value != nil && pc.Value.Kind() == constant.String {
						c.declFun("uf$rePattern", []string{"Int"}, "Str")
						c.usedUF["rePattern"] = true
						add(eq(fmt.Sprintf("(uf$rePattern (* %d %s))", id, refStride), c.strLit(constant.StringVal(pc.Value))))
					}
				}
			}
			if k == "errors.New" || k == "fmt.Errorf" {
				id := 50000 + w.globalIDs["glob$"+mangle(g.Pkg.Pkg.Path())+"."+g.Name()]
				add(eq(cell(), fmt.Sprintf("(mk-iface %s (* %d %s))", c.typeID(types.NewPointer(types.Typ[types.Invalid])), id, refStride)))
				c.W.errGlobals[g.Pkg.Pkg.Path()+"."+g.Name()] = id
			}
		}
	case *ssa.Slice:
		al, ok := v.X.(*ssa.Alloc)
		if !ok || v.Low != nil || v.High != nil {
			return
		}
		arr, ok := al.Type().(*types.Pointer).Elem().Underlying().(*types.Array)
		if !ok {
			return
		}
		elems := make([]*big.Int, arr.Len())
		okAll := true
		for _, b := range init.Blocks {
			for _, ins := range b.Instrs {
				s, ok := ins.(*ssa.Store)
				if !ok {
					continue
				}
				ia, ok := s.Addr.(*ssa.IndexAddr)
				if !ok || ia.X != ssa.Value(al) {
					continue
				}
				ik, ok1 := constBig(ia.Index)
				vk, ok2 := constBig(s.Val)
				if !ok1 || !ok2 {
					okAll = false
					continue
				}
				elems[ik.Int64()] = vk
			}
		}
		if _, isInt := intInfoOf(arr.Elem()); !okAll || !isInt {
			// length facts only
			c.sliceLitFacts(g, ref, t, arr.Len(), nil, arr.Elem())
			return
		}
		for i := range elems {
			if elems[i] == nil {
				elems[i] = big.NewInt(0)
			}
		}
		c.sliceLitFacts(g, ref, t, arr.Len(), elems, arr.Elem())
	case *ssa.Convert:
		if k, ok := v.X.(*ssa.Const); ok && k.Value != nil && k.Value.Kind() == constant.String {
			if sl, ok := t.Underlying().(*types.Slice); ok {
				s := constant.StringVal(k.Value)
				var elems []*big.Int
				for i := 0; i < len(s); i++ {
					elems = append(elems, big.NewInt(int64(s[i])))
				}
				c.sliceLitFacts(g, ref, t, int64(len(s)), elems, sl.Elem())
			}
		}
	}
}

func (c *Ctx) sliceLitFacts(g *ssa.Global, ref string, t types.Type, n int64, elems []*big.Int, elem types.Type) {
	add := func(s string) { c.Decls = append(c.Decls, "(assert "+s+")") }
	h, srt := c.cellHeap(t)
	cellv := "(select " + c.heapInit(h, srt) + " " + ref + ")"
	base := 60000 + c.W.globalIDs["glob$"+mangle(g.Pkg.Pkg.Path())+"."+g.Name()]
	baseT := fmt.Sprintf("(* %d %s)", base, refStride)
	add(eq(cellv, c.mkSlice(baseT, c.idxLit(0), c.idxLit(n), c.idxLit(n))))
	if elems == nil {
		return
	}
	mh, msrt := c.memHeap(elem)
	arr := "(select " + c.heapInit(mh, msrt) + " " + baseT + ")"
	for i, e := range elems {
		add(eq("(select "+arr+" "+c.idxLit(int64(i))+")", c.numLit(e, elem)))
	}
}
