package main

// Specification expression language: Go expression syntax plus
//   a ==> b, a <==> b, forall x T, y U :: e, exists ..., old(e), c ? a : b
// Types in quantifiers / defs are written as Go types.

import (
	"fmt"
	"strings"
)

type Expr interface{}

type EIdent struct{ Name string }
type ELit struct {
	Kind string // int, string, char, bool, nil
	Val  string
}
type EBin struct {
	Op   string
	L, R Expr
}
type EUn struct {
	Op string
	X  Expr
}
type ECall struct {
	Fun  Expr
	Args []Expr
}
type ESel struct {
	X   Expr
	Sel string
}
type EIndex struct{ X, I Expr }
type ESlice struct{ X, Lo, Hi Expr }
type BoundVar struct{ Name, Type string }
type EQuant struct {
	Forall bool
	Vars   []BoundVar
	Body   Expr
	Pats   []Expr // optional explicit multi-pattern: forall x T :: {p1, p2} body
}
type ECond struct{ C, A, B Expr }
type EType struct{ Text string } // a type used as conversion target, e.g. []byte

type tok struct {
	k string // ident, int, string, char, op, eof
	v string
}

type lexer struct {
	s    string
	pos  int
	toks []tok
}

func lex(s string) ([]tok, error) {
	var out []tok
	i := 0
	ops := []string{"<==>", "==>", "<<", ">>", "&&", "||", "==", "!=", "<=", ">=", "::", "&^"}
	for i < len(s) {
		c := s[i]
		switch {
		case c == ' ' || c == '\t' || c == '\n' || c == '\r':
			i++
		case isIdentStart(c):
			j := i
			for j < len(s) && (isIdentStart(s[j]) || (s[j] >= '0' && s[j] <= '9')) {
				j++
			}
			out = append(out, tok{"ident", s[i:j]})
			i = j
		case c >= '0' && c <= '9':
			j := i
			for j < len(s) && (isIdentStart(s[j]) || (s[j] >= '0' && s[j] <= '9')) {
				j++
			}
			out = append(out, tok{"int", strings.ReplaceAll(s[i:j], "_", "")})
			i = j
		case c == '"':
			j := i + 1
			for j < len(s) && s[j] != '"' {
				if s[j] == '\\' {
					j++
				}
				j++
			}
			if j >= len(s) {
				return nil, fmt.Errorf("unterminated string")
			}
			out = append(out, tok{"string", s[i : j+1]})
			i = j + 1
		case c == '\'':
			j := i + 1
			for j < len(s) && s[j] != '\'' {
				if s[j] == '\\' {
					j++
				}
				j++
			}
			if j >= len(s) {
				return nil, fmt.Errorf("unterminated char")
			}
			out = append(out, tok{"char", s[i : j+1]})
			i = j + 1
		default:
			matched := false
			for _, op := range ops {
				if strings.HasPrefix(s[i:], op) {
					out = append(out, tok{"op", op})
					i += len(op)
					matched = true
					break
				}
			}
			if !matched {
				out = append(out, tok{"op", string(c)})
				i++
			}
		}
	}
	out = append(out, tok{"eof", ""})
	return out, nil
}

func isIdentStart(c byte) bool {
	return c == '_' || c == '$' || (c >= 'a' && c <= 'z') || (c >= 'A' && c <= 'Z')
}

type parser struct {
	toks []tok
	p    int
}

func ParseExpr(s string) (Expr, error) {
	toks, err := lex(s)
	if err != nil {
		return nil, err
	}
	p := &parser{toks: toks}
	var e Expr
	func() {
		defer func() {
			if r := recover(); r != nil {
				if pe, ok := r.(parseErr); ok {
					err = fmt.Errorf("%s in %q", string(pe), s)
					return
				}
				panic(r)
			}
		}()
		e = p.expr()
		if p.peek().k != "eof" {
			p.fail("unexpected %q", p.peek().v)
		}
	}()
	return e, err
}

type parseErr string

func (p *parser) fail(f string, a ...interface{}) { panic(parseErr(fmt.Sprintf(f, a...))) }
func (p *parser) peek() tok                        { return p.toks[p.p] }
func (p *parser) next() tok                        { t := p.toks[p.p]; p.p++; return t }
func (p *parser) isOp(v string) bool               { t := p.peek(); return t.k == "op" && t.v == v }
func (p *parser) accept(v string) bool {
	if p.isOp(v) {
		p.p++
		return true
	}
	return false
}
func (p *parser) expect(v string) {
	if !p.accept(v) {
		p.fail("expected %q, got %q", v, p.peek().v)
	}
}

func (p *parser) expr() Expr {
	t := p.peek()
	if t.k == "ident" && (t.v == "forall" || t.v == "exists") {
		p.next()
		q := &EQuant{Forall: t.v == "forall"}
		for {
			name := p.next()
			if name.k != "ident" {
				p.fail("bound variable expected")
			}
			ty := p.typeText()
			q.Vars = append(q.Vars, BoundVar{name.v, ty})
			if !p.accept(",") {
				break
			}
		}
		p.expect("::")
		if p.accept("{") {
			for {
				q.Pats = append(q.Pats, p.expr())
				if !p.accept(",") {
					break
				}
			}
			p.expect("}")
		}
		q.Body = p.expr()
		return q
	}
	return p.iff()
}

// typeText consumes a Go type and returns its text.
func (p *parser) typeText() string {
	var sb strings.Builder
	for {
		t := p.peek()
		if t.k == "op" && (t.v == "*" || t.v == "[" || t.v == "]") {
			sb.WriteString(t.v)
			p.next()
			continue
		}
		if t.k == "int" { // array length
			sb.WriteString(t.v)
			p.next()
			continue
		}
		break
	}
	t := p.next()
	if t.k != "ident" {
		p.fail("type expected, got %q", t.v)
	}
	sb.WriteString(t.v)
	for p.isOp(".") {
		p.next()
		t2 := p.next()
		sb.WriteString("." + t2.v)
	}
	return sb.String()
}

func (p *parser) iff() Expr {
	l := p.implies()
	for p.accept("<==>") {
		r := p.implies()
		l = &EBin{"<==>", l, r}
	}
	return l
}

func (p *parser) implies() Expr {
	l := p.cond()
	if p.accept("==>") {
		r := p.implies()
		// allow quantifier on the right of ==>
		return &EBin{"==>", l, r}
	}
	return l
}

func (p *parser) cond() Expr {
	c := p.or()
	if p.accept("?") {
		a := p.expr()
		p.expect(":")
		b := p.expr()
		return &ECond{c, a, b}
	}
	return c
}

func (p *parser) or() Expr {
	l := p.and()
	for p.accept("||") {
		l = &EBin{"||", l, p.and()}
	}
	return l
}

func (p *parser) and() Expr {
	l := p.cmp()
	for p.accept("&&") {
		l = &EBin{"&&", l, p.cmp()}
	}
	return l
}

func (p *parser) cmp() Expr {
	l := p.add()
	for {
		t := p.peek()
		if t.k == "op" && (t.v == "==" || t.v == "!=" || t.v == "<" || t.v == "<=" || t.v == ">" || t.v == ">=") {
			p.next()
			r := p.add()
			l = &EBin{t.v, l, r}
			continue
		}
		return l
	}
}

func (p *parser) add() Expr {
	l := p.mul()
	for {
		t := p.peek()
		if t.k == "op" && (t.v == "+" || t.v == "-" || t.v == "|" || t.v == "^") {
			p.next()
			l = &EBin{t.v, l, p.mul()}
			continue
		}
		return l
	}
}

func (p *parser) mul() Expr {
	l := p.unary()
	for {
		t := p.peek()
		if t.k == "op" && (t.v == "*" || t.v == "/" || t.v == "%" || t.v == "<<" || t.v == ">>" || t.v == "&" || t.v == "&^") {
			p.next()
			l = &EBin{t.v, l, p.unary()}
			continue
		}
		return l
	}
}

func (p *parser) unary() Expr {
	t := p.peek()
	if t.k == "op" && (t.v == "!" || t.v == "-" || t.v == "^") {
		p.next()
		return &EUn{t.v, p.unary()}
	}
	if t.k == "ident" && (t.v == "forall" || t.v == "exists") {
		return p.expr()
	}
	return p.postfix()
}

func (p *parser) postfix() Expr {
	e := p.primary()
	for {
		switch {
		case p.accept("."):
			t := p.next()
			if t.k != "ident" {
				p.fail("selector expected")
			}
			e = &ESel{e, t.v}
		case p.accept("("):
			var args []Expr
			if !p.isOp(")") {
				for {
					args = append(args, p.expr())
					if !p.accept(",") {
						break
					}
				}
			}
			p.expect(")")
			e = &ECall{e, args}
		case p.accept("["):
			var lo, hi Expr
			if !p.isOp(":") {
				lo = p.expr()
			}
			if p.accept(":") {
				if !p.isOp("]") {
					hi = p.expr()
				}
				p.expect("]")
				e = &ESlice{e, lo, hi}
			} else {
				p.expect("]")
				e = &EIndex{e, lo}
			}
		default:
			return e
		}
	}
}

func (p *parser) primary() Expr {
	t := p.next()
	switch t.k {
	case "ident":
		switch t.v {
		case "true", "false":
			return &ELit{"bool", t.v}
		case "nil":
			return &ELit{"nil", ""}
		}
		return &EIdent{t.v}
	case "int":
		return &ELit{"int", t.v}
	case "string":
		return &ELit{"string", t.v}
	case "char":
		return &ELit{"char", t.v}
	case "op":
		if t.v == "(" {
			// (*T) receiver-style or parenthesised expr
			e := p.expr()
			p.expect(")")
			return e
		}
		if t.v == "[" {
			// []byte(x) style conversion
			p.expect("]")
			id := p.next()
			if id.k != "ident" {
				p.fail("type expected after []")
			}
			return &EType{"[]" + id.v}
		}
		if t.v == "*" {
			x := p.unary()
			return &EUn{"*", x}
		}
	}
	p.fail("unexpected token %q", t.v)
	return nil
}

func exprString(e Expr) string {
	switch x := e.(type) {
	case nil:
		return ""
	case *EIdent:
		return x.Name
	case *ELit:
		if x.Kind == "nil" {
			return "nil"
		}
		return x.Val
	case *EBin:
		return "(" + exprString(x.L) + " " + x.Op + " " + exprString(x.R) + ")"
	case *EUn:
		return x.Op + exprString(x.X)
	case *ECall:
		var a []string
		for _, y := range x.Args {
			a = append(a, exprString(y))
		}
		return exprString(x.Fun) + "(" + strings.Join(a, ", ") + ")"
	case *ESel:
		return exprString(x.X) + "." + x.Sel
	case *EIndex:
		return exprString(x.X) + "[" + exprString(x.I) + "]"
	case *ESlice:
		return exprString(x.X) + "[" + exprString(x.Lo) + ":" + exprString(x.Hi) + "]"
	case *EQuant:
		k := "exists"
		if x.Forall {
			k = "forall"
		}
		var vs []string
		for _, v := range x.Vars {
			vs = append(vs, v.Name+" "+v.Type)
		}
		return k + " " + strings.Join(vs, ", ") + " :: " + exprString(x.Body)
	case *ECond:
		return "(" + exprString(x.C) + " ? " + exprString(x.A) + " : " + exprString(x.B) + ")"
	case *EType:
		return x.Text
	}
	return "?"
}
