package main

// Built-in models of a few standard-library functions whose behaviour is
// easier to state operationally than as a contract. Everything here is part
// of the trusted base and listed in the evidence.

import (
	"fmt"
	"go/token"
	"go/types"
)

func (w *World) initModels() {
	w.models = map[string]modelFn{}
	w.modelTargets = map[string]func(c *Ctx) []havocTarget{}
	hdrTargets := func(c *Ctx) []havocTarget {
		mt := types.NewMap(types.Typ[types.String], types.NewSlice(types.Typ[types.String]))
		d, v := c.mapHeaps(mt)
		h, _ := c.memHeap(types.Typ[types.String])
		return []havocTarget{{d, "", "", ""}, {v, "", "", ""}, {"MapLen", "", "", ""}, {h, "", "", ""}, {allocHeap, "", "", ""}}
	}
	// http.Header is map[string][]string keyed by the canonical form of the
	// field name (uninterpreted function canonHeader, idempotent).
	canon := func(c *Ctx, k string) string {
		c.declFun("canonHeader", []string{"Str"}, "Str")
		t := "(canonHeader " + k + ")"
		c.assert("(= (canonHeader " + t + ") " + t + ")")
		return t
	}
	w.models["net/http.(Header).Set"] = func(f *Frame, args []Val, rt types.Type, st *State, pos token.Pos) Val {
		c := f.c
		m, k, v := args[0], args[1], args[2]
		mt := m.Typ.Underlying().(*types.Map)
		key := canon(c, k.T)
		// value: fresh one-element slice
		r := c.newRef(st, "hdrval")
		h, srt := c.memHeap(types.Typ[types.String])
		c.heapSet(st, h, "(store "+c.heapGet(st, h, srt)+" "+r+" (store ((as const (Array "+c.idxSort()+" Str)) "+c.strLit("")+") "+c.idxLit(0)+" "+v.T+"))")
		f.mapStore(st, mt, m.T, key, c.mkSlice(r, c.idxLit(0), c.idxLit(1), c.idxLit(1)), pos)
		return Val{Typ: rt}
	}
	w.modelTargets["net/http.(Header).Set"] = hdrTargets
	// Add appends to the values of the canonical key: the key is present
	// afterwards; the value list is a slice of at least one element whose last
	// element is v (earlier elements unspecified).
	w.models["net/http.(Header).Add"] = func(f *Frame, args []Val, rt types.Type, st *State, pos token.Pos) Val {
		c := f.c
		m, k, v := args[0], args[1], args[2]
		mt := m.Typ.Underlying().(*types.Map)
		f.oblige("nil", f.srcKey(pos, "Header.Add"), not(eq(m.T, "0")), pos, "assignment to entry in nil map")
		key := canon(c, k.T)
		r := c.newRef(st, "hdrval")
		n := c.fresh("hdrlen")
		c.declConst(n, c.idxSort())
		c.assume(f.curGuard, and(c.ile(c.idxLit(1), q(n)), c.ile(q(n), maxLenStr)))
		h, srt := c.memHeap(types.Typ[types.String])
		arr := c.fresh("hdrarr")
		c.declConst(arr, "(Array "+c.idxSort()+" Str)")
		c.heapSet(st, h, "(store "+c.heapGet(st, h, srt)+" "+r+" (store "+q(arr)+" (- "+q(n)+" 1) "+v.T+"))")
		f.mapStore(st, mt, m.T, key, c.mkSlice(r, c.idxLit(0), q(n), q(n)), pos)
		return Val{Typ: rt}
	}
	w.modelTargets["net/http.(Header).Add"] = hdrTargets
	w.models["net/http.(Header).Get"] = func(f *Frame, args []Val, rt types.Type, st *State, pos token.Pos) Val {
		c := f.c
		t := c.name("hdrget", c.hdrGetTerm(st, args[0], args[1].T), "Str")
		c.assume(f.curGuard, c.strFacts(t))
		return Val{T: t, Typ: rt}
	}
	w.modelTargets["net/http.(Header).Get"] = func(c *Ctx) []havocTarget { return nil }
	w.models["net/http.CanonicalHeaderKey"] = func(f *Frame, args []Val, rt types.Type, st *State, pos token.Pos) Val {
		t := canon(f.c, args[0].T)
		f.c.assume(f.curGuard, f.c.strFacts(t))
		return Val{T: t, Typ: rt}
	}
	w.modelTargets["net/http.CanonicalHeaderKey"] = func(c *Ctx) []havocTarget { return nil }
	w.models["sort.Slice"] = sortSlice
}

// mapStore performs m[k] = v with exact domain and length bookkeeping.
func (f *Frame) mapStore(st *State, mt *types.Map, m, k, v string, pos token.Pos) {
	c := f.c
	d, vh := c.mapHeaps(mt)
	f.frameCheck(d, m, pos, "mapupdate")
	dh := c.heapGet(st, d, c.heapSort[d])
	vv := c.heapGet(st, vh, c.heapSort[vh])
	was := c.name("had", "(select (select "+dh+" "+m+") "+k+")", "Bool")
	lh := f.mapLenHeap()
	oldLen := "(select " + c.heapGet(st, lh, c.heapSort[lh]) + " " + m + ")"
	c.heapSet(st, d, "(store "+dh+" "+m+" (store (select "+dh+" "+m+") "+k+" true))")
	c.heapSet(st, vh, "(store "+vv+" "+m+" (store (select "+vv+" "+m+") "+k+" "+v+"))")
	c.heapSet(st, lh, "(store "+c.heapGet(st, lh, c.heapSort[lh])+" "+m+" "+ite(was, oldLen, c.iadd(oldLen, c.idxLit(1)))+")")
}

// sortSlice models sort.Slice(x, less): the elements of x are permuted (an
// explicit bijection pi with inverse) and afterwards ordered with respect to
// less, whose meaning is taken from the closure's pure contract
// "ensures result == <expr over i, j>".
func sortSlice(f *Frame, args []Val, rt types.Type, st *State, pos token.Pos) Val {
	c := f.c
	if len(args) != 2 || len(args[0].Bind) != 1 || args[1].Fn == nil {
		c.unsupported("sort.Slice: slice or comparison function not statically known")
		return f.havocCall("sort.Slice", rt, st)
	}
	s := args[0].Bind[0]
	sl, ok := s.Typ.Underlying().(*types.Slice)
	if !ok {
		c.unsupported("sort.Slice on non-slice")
		return f.havocCall("sort.Slice", rt, st)
	}
	less := args[1]
	ct := c.W.Specs.Contracts[funcKey(less.Fn)]
	var lessRHS Expr
	if ct != nil && ct.Pure {
		for _, e := range ct.Ensures {
			if b, ok := e.E.(*EBin); ok && b.Op == "==" {
				if id, ok := b.L.(*EIdent); ok && id.Name == "result" {
					lessRHS = b.R
				}
			}
		}
	}
	if lessRHS == nil {
		c.unsupported("sort.Slice: comparison closure %s needs a pure contract 'ensures result == <expr>'", shortFuncKey(less.Fn))
		return f.havocCall("sort.Slice", rt, st)
	}
	c.usedContracts[ct.Key] = true
	h, srt := c.memHeap(sl.Elem())
	f.frameCheck(h, "(sl.base "+s.T+")", pos, "sort.Slice")
	mem := c.heapGet(st, h, srt)
	es := c.sortOf(sl.Elem())
	idx := c.idxSort()
	oldArr := c.name("sortold", "(select "+mem+" (sl.base "+s.T+"))", "(Array "+idx+" "+es+")")
	na := c.fresh("sorted")
	c.declConst(na, "(Array "+idx+" "+es+")")
	pi := c.fresh("pi")
	pinv := c.fresh("piinv")
	c.declFun(pi, []string{idx}, idx)
	c.declFun(pinv, []string{idx}, idx)
	off, n := "(sl.off "+s.T+")", "(sl.len "+s.T+")"
	inR := func(v string) string { return and(c.ile(c.idxLit(0), v), c.ilt(v, n)) }
	g := f.curGuard
	c.assume(g, fmt.Sprintf("(forall ((i!p %s)) (! (=> %s (and %s (= (select %s %s) (select %s %s)) (= (%s (%s i!p)) i!p))) :pattern ((select %s %s)) :pattern ((%s i!p))))",
		idx, inR("i!p"), inR("("+q(pi)+" i!p)"), q(na), c.eidx(off, "i!p"), oldArr, c.eidx(off, "("+q(pi)+" i!p)"), q(pinv), q(pi), q(na), c.eidx(off, "i!p"), q(pi)))
	c.assume(g, fmt.Sprintf("(forall ((j!p %s)) (! (=> %s (and %s (= (%s (%s j!p)) j!p))) :pattern ((%s j!p))))",
		idx, inR("j!p"), inR("("+q(pinv)+" j!p)"), q(pi), q(pinv), q(pinv)))
	c.heapSet(st, h, "(store "+mem+" (sl.base "+s.T+") "+q(na)+")")
	// ordered: for a < b, not less(b, a), evaluated in the state after the sort
	env := f.calleeEnv(ct, less.Fn, less.Fn.Signature, append(append([]Val{}, less.Bind...), Val{T: "b!s", Typ: types.Typ[types.Int]}, Val{T: "a!s", Typ: types.Typ[types.Int]}))
	env.cur, env.old = st, st
	env.bound = map[string]bool{}
	// the comparison is stated for all index pairs: facts about what it reads
	// are axioms under the same binder
	env.scope = []scopeElem{{binds: "((a!s " + idx + ") (b!s " + idx + "))", tguard: "true", vars: []string{"a!s", "b!s"}, bindList: []string{"(a!s " + idx + ")", "(b!s " + idx + ")"}}}
	before := len(c.Log)
	t, err := env.boolTerm(lessRHS)
	extra := append([]string{}, c.Log[before:]...)
	c.Log = c.Log[:before]
	if err != nil {
		c.unsupported("sort.Slice: cannot translate comparison contract: %v", err)
		return Val{Typ: rt}
	}
	for _, x := range extra {
		c.Log = append(c.Log, x)
	}
	c.assume(g, fmt.Sprintf("(forall ((a!s %s) (b!s %s)) (=> (and %s %s %s) (not %s)))", idx, idx, c.ile(c.idxLit(0), "a!s"), c.ilt("a!s", "b!s"), c.ilt("b!s", n), t))
	// handles for specifications: the permutation of the last sort
	c.lastPi, c.lastPiInv = q(pi), q(pinv)
	return Val{Typ: rt}
}

func (w *World) builtinModel(key string) modelFn { return w.models[key] }

func (w *World) builtinModelTargets(c *Ctx, key string) []havocTarget {
	if f := w.modelTargets[key]; f != nil {
		return f(c)
	}
	return nil
}

// hdrGetTerm: http.Header.Get(k) over the map model: the first value stored
// under the canonical key, or "".
func (c *Ctx) hdrGetTerm(st *State, m Val, k string) string {
	mt := m.Typ.Underlying().(*types.Map)
	c.declFun("canonHeader", []string{"Str"}, "Str")
	key := "(canonHeader " + k + ")"
	d, vh := c.mapHeaps(mt)
	dom := and(not(eq(m.T, "0")), "(select (select "+c.heapGet(st, d, c.heapSort[d])+" "+m.T+") "+key+")")
	sl := "(select (select " + c.heapGet(st, vh, c.heapSort[vh]) + " " + m.T + ") " + key + ")"
	h, srt := c.memHeap(types.Typ[types.String])
	first := "(select (select " + c.heapGet(st, h, srt) + " (sl.base " + sl + ")) (sl.off " + sl + "))"
	return ite(and(dom, c.ilt(c.idxLit(0), "(sl.len "+sl+")")), first, c.strLit(""))
}
