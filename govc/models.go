package main

// Built-in models of a few standard-library functions whose behaviour is
// easier to state operationally than as a contract. Everything here is part
// of the trusted base and listed in the evidence.

import (
	"go/token"
	"go/types"
)

func (w *World) initModels() {
	w.models = map[string]modelFn{}
	w.modelTargets = map[string]func(c *Ctx) []havocTarget{}
	hdrTargets := func(c *Ctx) []havocTarget {
		mt := types.NewMap(types.Typ[types.String], types.NewSlice(types.Typ[types.String]))
		d, v := c.mapHeaps(mt)
		h, _ := c.memHeap(types.Typ[types.String])
		return []havocTarget{{d, "", ""}, {v, "", ""}, {"MapLen", "", ""}, {h, "", ""}, {allocHeap, "", ""}}
	}
	// http.Header is map[string][]string keyed by the canonical form of the
	// field name (uninterpreted function canonHeader, idempotent).
	canon := func(c *Ctx, k string) string {
		c.declFun("canonHeader", []string{"Str"}, "Str")
		t := "(canonHeader " + k + ")"
		c.assert("(= (canonHeader " + t + ") " + t + ")")
		return t
	}
	w.models["net/http.(Header).Set"] = func(f *Frame, args []Val, rt types.Type, st *State, pos token.Pos) Val {
		c := f.c
		m, k, v := args[0], args[1], args[2]
		mt := m.Typ.Underlying().(*types.Map)
		key := canon(c, k.T)
		// value: fresh one-element slice
		r := c.newRef(st, "hdrval")
		h, srt := c.memHeap(types.Typ[types.String])
		c.heapSet(st, h, "(store "+c.heapGet(st, h, srt)+" "+r+" (store ((as const (Array "+c.idxSort()+" Str)) "+c.strLit("")+") "+c.idxLit(0)+" "+v.T+"))")
		f.mapStore(st, mt, m.T, key, c.mkSlice(r, c.idxLit(0), c.idxLit(1), c.idxLit(1)), pos)
		return Val{Typ: rt}
	}
	w.modelTargets["net/http.(Header).Set"] = hdrTargets
	w.models["net/http.(Header).Get"] = func(f *Frame, args []Val, rt types.Type, st *State, pos token.Pos) Val {
		c := f.c
		m, k := args[0], args[1]
		mt := m.Typ.Underlying().(*types.Map)
		key := canon(c, k.T)
		d, vh := c.mapHeaps(mt)
		dom := and(not(eq(m.T, "0")), "(select (select "+c.heapGet(st, d, c.heapSort[d])+" "+m.T+") "+key+")")
		sl := "(select (select " + c.heapGet(st, vh, c.heapSort[vh]) + " " + m.T + ") " + key + ")"
		h, srt := c.memHeap(types.Typ[types.String])
		first := "(select (select " + c.heapGet(st, h, srt) + " (sl.base " + sl + ")) (sl.off " + sl + "))"
		t := c.name("hdrget", ite(and(dom, c.ilt(c.idxLit(0), "(sl.len "+sl+")")), first, c.strLit("")), "Str")
		c.assume(f.curGuard, c.strFacts(t))
		return Val{T: t, Typ: rt}
	}
	w.modelTargets["net/http.(Header).Get"] = func(c *Ctx) []havocTarget { return nil }
	w.models["net/http.CanonicalHeaderKey"] = func(f *Frame, args []Val, rt types.Type, st *State, pos token.Pos) Val {
		t := canon(f.c, args[0].T)
		f.c.assume(f.curGuard, f.c.strFacts(t))
		return Val{T: t, Typ: rt}
	}
	w.modelTargets["net/http.CanonicalHeaderKey"] = func(c *Ctx) []havocTarget { return nil }
}

// mapStore performs m[k] = v with exact domain and length bookkeeping.
func (f *Frame) mapStore(st *State, mt *types.Map, m, k, v string, pos token.Pos) {
	c := f.c
	d, vh := c.mapHeaps(mt)
	f.frameCheck(d, m, pos, "mapupdate")
	dh := c.heapGet(st, d, c.heapSort[d])
	vv := c.heapGet(st, vh, c.heapSort[vh])
	was := c.name("had", "(select (select "+dh+" "+m+") "+k+")", "Bool")
	lh := f.mapLenHeap()
	oldLen := "(select " + c.heapGet(st, lh, c.heapSort[lh]) + " " + m + ")"
	c.heapSet(st, d, "(store "+dh+" "+m+" (store (select "+dh+" "+m+") "+k+" true))")
	c.heapSet(st, vh, "(store "+vv+" "+m+" (store (select "+vv+" "+m+") "+k+" "+v+"))")
	c.heapSet(st, lh, "(store "+c.heapGet(st, lh, c.heapSort[lh])+" "+m+" "+ite(was, oldLen, c.iadd(oldLen, c.idxLit(1)))+")")
}

func (w *World) builtinModel(key string) modelFn { return w.models[key] }

func (w *World) builtinModelTargets(c *Ctx, key string) []havocTarget {
	if f := w.modelTargets[key]; f != nil {
		return f(c)
	}
	return nil
}
