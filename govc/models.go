package main

// Built-in models of a few standard-library functions whose behaviour is
// easier to state operationally than as a contract. Everything here is part
// of the trusted base and listed in the evidence.

func (w *World) initModels() {
	w.models = map[string]modelFn{}
	w.modelTargets = map[string]func(c *Ctx) []havocTarget{}
}

func (w *World) builtinModel(key string) modelFn { return w.models[key] }

func (w *World) builtinModelTargets(c *Ctx, key string) []havocTarget {
	if f := w.modelTargets[key]; f != nil {
		return f(c)
	}
	return nil
}
