package main

// Discharging obligations: one SMT-LIB query per obligation, solvers raced.

import (
	"strconv"
	"bytes"
	"context"
	"crypto/sha256"
	"encoding/hex"
	"fmt"
	"os"
	"os/exec"
	"path/filepath"
	"strings"
	"sync"
	"time"
)

type Result struct {
	Obl     *Obligation
	Status  string // proved | refuted | undecided | cover-ok | cover-failed
	Solver  string
	TimeS   float64
	Model   string
	Reason  string
	Query   string // path of query file (kept for refuted/undecided)
	Relaxed bool   // the model comes from the problem without quantified assumptions
	FailedPart *Obligation // for a postcondition: the return-site part that failed
	SumS    float64     // for a postcondition: total solver time over its return sites
}

func (o *Obligation) query(forCvc5 bool, withModel bool) string {
	c := o.Ctx
	relaxed := o.Relaxed
	var sb strings.Builder
	pre := c.prelude()
	if relaxed {
		// ix is definitional: keep it exact when quantified axioms are dropped
		if c.Mode == ModeInt {
			pre = strings.Replace(pre, "(declare-fun ix (Int Int) Int)\n(assert (forall ((a Int) (b Int)) (! (= (ix a b) (+ a b)) :pattern ((ix a b)))))\n", "(define-fun ix ((a Int) (b Int)) Int (+ a b))\n", 1)
		} else {
			pre = strings.Replace(pre, "(declare-fun ix ((_ BitVec 64) (_ BitVec 64)) (_ BitVec 64))\n(assert (forall ((a (_ BitVec 64)) (b (_ BitVec 64))) (! (= (ix a b) (bvadd a b)) :pattern ((ix a b)))))\n", "(define-fun ix ((a (_ BitVec 64)) (b (_ BitVec 64))) (_ BitVec 64) (bvadd a b))\n", 1)
		}
	}
	if forCvc5 {
		sb.WriteString("(set-option :produce-models true)\n(set-logic ALL)\n")
		sb.WriteString(strings.Replace(pre, "(set-option :produce-models true)\n", "", 1))
	} else {
		sb.WriteString(pre)
	}
	if c.Mode == ModeInt && !o.ExpectSat && !relaxed {
		sb.WriteString(stringAxioms)
	}
	// vacuity covers must come back "sat": quantified assumptions (definitional
	// axioms, quantified invariants) are left out of them, since solvers
	// answer "unknown" for satisfiable quantified problems.
	skip := func(s string) bool {
		return (o.ExpectSat || relaxed) && strings.HasPrefix(s, "(assert") && (strings.Contains(s, "(forall ") || strings.Contains(s, "(exists "))
	}
	for _, d := range c.Decls {
		if skip(d) {
			continue
		}
		sb.WriteString(d)
		sb.WriteString("\n")
	}
	var anc map[int]bool
	if o.Blk >= 0 && c.ancestors != nil && os.Getenv("GOVC_NOSLICE") == "" {
		anc = c.ancestors[o.Blk]
	}
	for i, a := range c.Log[:o.Prefix] {
		if skip(a) {
			continue
		}
		// assertions made in blocks that cannot reach the obligation's block
		// are irrelevant to it (dropping assumptions is always sound)
		if anc != nil && i < len(c.LogBlk) && c.LogBlk[i] >= 0 && !anc[c.LogBlk[i]] {
			continue
		}
		sb.WriteString(a)
		sb.WriteString("\n")
	}
	for _, a := range o.Extra {
		sb.WriteString(a)
		sb.WriteString("\n")
	}
	if o.Guard != "" && o.Guard != "true" {
		sb.WriteString("(assert " + o.Guard + ")\n")
	}
	if !o.ExpectSat && !o.Consistency {
		sb.WriteString("(assert (not " + o.Goal + "))\n")
	}
	sb.WriteString("(check-sat)\n")
	return sb.String()
}

const stringAxioms = `(assert (forall ((s Str) (a Int) (b Int)) (! (=> (and (<= 0 a) (<= a b)) (= (slen (ssub s a b)) (- b a))) :pattern ((ssub s a b)))))
(assert (forall ((s Str) (a Int) (b Int) (i Int)) (! (=> (and (<= 0 a) (<= 0 i) (< i (- b a))) (= (sat (ssub s a b) i) (sat s (+ a i)))) :pattern ((sat (ssub s a b) i)))))
(assert (forall ((s Str) (t Str)) (! (= (slen (scat s t)) (+ (slen s) (slen t))) :pattern ((scat s t)))))
(assert (forall ((s Str) (t Str) (i Int)) (! (= (sat (scat s t) i) (ite (< i (slen s)) (sat s i) (sat t (- i (slen s))))) :pattern ((sat (scat s t) i)))))
`

type solverSpec struct {
	name string
	args func(timeout int) []string
	cvc5 bool
}

var solvers = []solverSpec{
	{"z3-new", func(t int) []string { return []string{"z3-new", fmt.Sprintf("-T:%d", t), "-smt2"} }, false},
	{"z3", func(t int) []string { return []string{"z3", fmt.Sprintf("-T:%d", t), "-smt2"} }, false},
	{"cvc5", func(t int) []string {
		return []string{"cvc5", "--lang=smt2", fmt.Sprintf("--tlimit=%d", t*1000)}
	}, true},
}

func runSolver(sp solverSpec, file string, timeout int) (string, string, float64) {
	ctx, cancel := context.WithTimeout(context.Background(), time.Duration(timeout+2)*time.Second)
	defer cancel()
	a := sp.args(timeout)
	cmd := exec.CommandContext(ctx, a[0], append(a[1:], file)...)
	var out bytes.Buffer
	cmd.Stdout = &out
	cmd.Stderr = &out
	t0 := time.Now()
	cmd.Run()
	el := time.Since(t0).Seconds()
	s := out.String()
	for strings.HasPrefix(s, "WARNING") || strings.HasPrefix(s, "(warning") {
		if i := strings.Index(s, "\n"); i >= 0 {
			s = s[i+1:]
		} else {
			break
		}
	}
	first := strings.TrimSpace(strings.SplitN(s, "\n", 2)[0])
	switch first {
	case "sat", "unsat", "unknown":
		return first, s, el
	}
	if strings.Contains(s, "timeout") || ctx.Err() != nil {
		return "timeout", s, el
	}
	return "error", s, el
}

// Proof cache: a query text that was decided "unsat" (or a cover "sat") once
// stays decided; keyed by the SHA-256 of the full query. Never stores failures.
func cacheDir() string { return filepath.Join(verifDir, "work", "cache") }

func cacheKey(q string) string {
	h := sha256.Sum256([]byte(q))
	return hex.EncodeToString(h[:])
}

func cacheGet(q string) (string, bool) {
	if os.Getenv("GOVC_NOCACHE") != "" {
		return "", false
	}
	data, err := os.ReadFile(filepath.Join(cacheDir(), cacheKey(q)))
	if err != nil {
		return "", false
	}
	v := strings.TrimSpace(string(data))
	if !strings.HasPrefix(v, "proved") && !strings.HasPrefix(v, "cover-ok") {
		return "", false
	}
	return v, true
}

func cachePut(q, val string) {
	os.MkdirAll(cacheDir(), 0755)
	tmp, err := os.CreateTemp(cacheDir(), "tmp-*")
	if err != nil {
		return
	}
	tmp.WriteString(val)
	tmp.Close()
	os.Rename(tmp.Name(), filepath.Join(cacheDir(), cacheKey(q)))
}

// discharge decides one obligation.
func discharge(o *Obligation, dir string, timeout int, confirm bool) *Result {
	if len(o.Parts) > 0 {
		// a postcondition: one query per return site, all must be proved
		total := &Result{Obl: o, Status: "proved"}
		for i, p := range o.Parts {
			p.Name = fmt.Sprintf("%s@return%d", o.Name, i)
			r := discharge(p, dir, timeout, confirm)
			p.Name = o.Name
			// each return site is its own query with its own time-out: the
			// margin that matters for the quick tier is the slowest one
			if r.TimeS > total.TimeS {
				total.TimeS = r.TimeS
			}
			total.SumS += r.TimeS
			if r.Solver != "" {
				total.Solver = r.Solver
			}
			if r.Status != "proved" {
				total.Status, total.Reason, total.Model, total.Query, total.Relaxed = r.Status, fmt.Sprintf("return site %d: %s", i, r.Reason), r.Model, r.Query, r.Relaxed
				total.FailedPart = p
				if r.Status == "refuted" {
					return total
				}
			}
		}
		return total
	}
	res := &Result{Obl: o}
	base := filepath.Join(dir, safeName(o.Name))
	q := o.query(false, false)
	if v, ok := cacheGet(q); ok {
		// "status solver seconds": the time the proof took when it was found is
		// reported again, so that tiering decisions do not depend on the cache
		parts := strings.Fields(v)
		res.Status = parts[0]
		if len(parts) > 1 {
			res.Solver = parts[1] + "(cached)"
		}
		if len(parts) > 2 {
			if t, err := strconv.ParseFloat(parts[2], 64); err == nil {
				res.TimeS = t
				if float64(timeout) < t {
					// found with a longer time-out than this tier allows: do not
					// answer from the cache
					res = &Result{Obl: o}
					goto solve
				}
			}
		}
		return res
	}
solve:
	defer func() {
		if res.Status == "proved" || res.Status == "cover-ok" {
			cachePut(q, fmt.Sprintf("%s %s %.2f", res.Status, strings.ReplaceAll(res.Solver, " ", ""), res.TimeS))
		}
	}()
	file := base + ".smt2"
	os.WriteFile(file, []byte(q), 0644)
	res.Query = file
	want := "unsat"
	if o.ExpectSat {
		want = "sat"
	}
	finish := func(status, solver string, t float64, reason string) *Result {
		res.Status, res.Solver, res.Reason = status, solver, reason
		res.TimeS += t
		return res
	}
	if o.Consistency {
		// the assumptions on this path (with all quantified axioms and
		// invariants) must not be contradictory: "unsat" means every obligation
		// below this point would hold vacuously
		for _, sp := range solvers[:2] {
			r, _, el := runSolver(sp, file, 2)
			res.TimeS += el
			if r == "unsat" {
				return finish("cover-failed", sp.name, 0, "assumptions on this path are contradictory")
			}
		}
		return finish("cover-ok", "z3-new+z3", 0, "")
	}
	// stage 1: z3-new, short
	t1 := timeout
	if t1 > 4 {
		t1 = 4
	}
	r, out, el := runSolver(solvers[0], file, t1)
	res.TimeS += el
	decided := func(r, out, name string) *Result {
		if r == want {
			if o.ExpectSat {
				return finish("cover-ok", name, 0, "")
			}
			return finish("proved", name, 0, "")
		}
		if r == "sat" && !o.ExpectSat {
			res.Model = out
			return finish("refuted", name, 0, "sat")
		}
		if r == "unsat" && o.ExpectSat {
			return finish("cover-failed", name, 0, "precondition or path unsatisfiable")
		}
		return nil
	}
	if d := decided(r, out, "z3-new"); d != nil {
		return d
	}
	reason := "z3-new: " + r
	if r == "error" {
		reason += ": " + firstLines(out, 3)
	}
	// stage 2: race the others (and z3-new with the full timeout)
	type sres struct {
		r, out, name string
		el          float64
	}
	ch := make(chan sres, 4)
	cfile := base + ".cvc5.smt2"
	os.WriteFile(cfile, []byte(o.query(true, false)), 0644)
	var wg sync.WaitGroup
	rfile := base + ".relaxed.smt2"
	relaxedRes := ""
	relaxedOut := ""
	hasQuant := false
	if !o.ExpectSat {
		for _, a := range append(append([]string{}, o.Ctx.Decls...), o.Ctx.Log[:o.Prefix]...) {
			if strings.HasPrefix(a, "(assert") && (strings.Contains(a, "(forall ") || strings.Contains(a, "(exists ")) {
				hasQuant = true
				break
			}
		}
		o.Relaxed = true
		os.WriteFile(rfile, []byte(o.query(false, false)), 0644)
		o.Relaxed = false
		wg.Add(1)
		go func() {
			defer wg.Done()
			r, out, el := runSolver(solvers[0], rfile, timeout)
			ch <- sres{r, out, "z3-new(relaxed)", el}
		}()
	}
	for i, sp := range solvers {
		wg.Add(1)
		go func(i int, sp solverSpec) {
			defer wg.Done()
			f := file
			if sp.cvc5 {
				f = cfile
			}
			r, out, el := runSolver(sp, f, timeout)
			ch <- sres{r, out, sp.name, el}
		}(i, sp)
	}
	go func() { wg.Wait(); close(ch) }()
	var final *Result
	for s := range ch {
		if final != nil {
			continue
		}
		res.TimeS += s.el
		if s.name == "z3-new(relaxed)" {
			relaxedRes, relaxedOut = s.r, s.out
			if s.r == "unsat" {
				// fewer assumptions, still unsat: proved
				final = finish("proved", s.name, 0, "")
			}
			continue
		}
		if d := decided(s.r, s.out, s.name); d != nil {
			final = d
			// cannot cancel others easily; they finish by their own timeout
			continue
		}
		reason += "; " + s.name + ": " + s.r
		if s.r == "error" {
			reason += ": " + firstLines(s.out, 2)
		}
	}
	os.Remove(cfile)
	if final != nil {
		return final
	}
	if relaxedRes == "sat" {
		// Counterexample of the problem without quantified assumptions. With no
		// quantified assumption in the context it is a model of the full
		// problem; otherwise it is a candidate that counts only if it replays.
		res.Model = relaxedOut
		res.Query = rfile
		res.Relaxed = true
		if !hasQuant && !strings.Contains(o.Goal, "(forall ") && !strings.Contains(o.Goal, "(exists ") {
			return finish("refuted", "z3-new", 0, reason+"; quantifier-free problem: sat")
		}
		return finish("refuted-candidate", "z3-new", 0, reason+"; relaxed (quantifier-free) problem: sat")
	}
	os.Remove(rfile)
	return finish("undecided", "", 0, reason)
}

func firstLines(s string, n int) string {
	l := strings.Split(strings.TrimSpace(s), "\n")
	if len(l) > n {
		l = l[:n]
	}
	return strings.Join(l, " | ")
}

func safeName(s string) string {
	var sb strings.Builder
	for _, r := range s {
		if (r >= 'a' && r <= 'z') || (r >= 'A' && r <= 'Z') || (r >= '0' && r <= '9') || r == '.' || r == '-' || r == '_' {
			sb.WriteRune(r)
		} else {
			sb.WriteRune('_')
		}
	}
	out := sb.String()
	h := 0
	for _, r := range s {
		h = h*31 + int(r)
		h &= 0xffffff
	}
	if len(out) > 120 {
		out = out[:120]
	}
	return fmt.Sprintf("%s_%06x", out, h)
}

// dischargeAll runs obligations on a worker pool.
func dischargeAll(obls []*Obligation, dir string, timeout int, workers int) []*Result {
	os.MkdirAll(dir, 0755)
	results := make([]*Result, len(obls))
	var wg sync.WaitGroup
	sem := make(chan struct{}, workers)
	for i, o := range obls {
		wg.Add(1)
		sem <- struct{}{}
		go func(i int, o *Obligation) {
			defer wg.Done()
			defer func() { <-sem }()
			results[i] = discharge(o, dir, timeout, false)
			if (results[i].Status == "proved" || results[i].Status == "cover-ok") && os.Getenv("GOVC_KEEP") == "" {
				os.Remove(results[i].Query)
			}
		}(i, o)
	}
	wg.Wait()
	return results
}
