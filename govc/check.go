package main

// The per-property check: obligations of every function whose contract serves
// the property (and, transitively, of the in-repo contracts they rely on),
// compared with the committed baseline and the known-findings file.

import (
	"bytes"
	"os/exec"
	"encoding/json"
	"fmt"
	"os"
	"path/filepath"
	"sort"
	"strconv"
	"strings"
	"time"

	"golang.org/x/tools/go/ssa"
)

type Baseline struct {
	// property -> obligation name -> kind
	Props map[string]map[string]string `json:"props"`
}

type KnownFinding struct {
	Property   string `json:"property"`
	Obligation string `json:"obligation"`
	Except     string `json:"except"`
	Witness    string `json:"witness"`
	What       string `json:"what"`
	Fixed      string `json:"fixed,omitempty"`
}

type KnownFindings struct {
	Findings []KnownFinding `json:"findings"`
	Fixed    []string       `json:"fixed"`
}

func loadBaseline() *Baseline {
	b := &Baseline{Props: map[string]map[string]string{}}
	data, err := os.ReadFile(filepath.Join(verifDir, "baseline.json"))
	if err == nil {
		json.Unmarshal(data, b)
	}
	if b.Props == nil {
		b.Props = map[string]map[string]string{}
	}
	return b
}

func loadKnown() *KnownFindings {
	k := &KnownFindings{}
	data, err := os.ReadFile(filepath.Join(verifDir, "known_findings.json"))
	if err == nil {
		json.Unmarshal(data, k)
	}
	return k
}

// contractLevel kinds come from contracts, not from code shape: they must
// all still be generated.
func contractLevel(kind string) bool {
	switch kind {
	case "ensures", "lemma", "decreases", "refines", "assert":
		return true
	}
	return strings.HasPrefix(kind, "invariant")
}

type propRun struct {
	id       string
	w        *World
	ctxs     []*Ctx
	obls     []*Obligation
	funcs    []string
	trusted  map[string]bool
	inlined  map[string]bool
	notes    []string
	unsup    map[string][]string
}

func (w *World) propFuncs(id string) []*ssa.Function {
	var out []*ssa.Function
	for _, fn := range w.contractFuncs() {
		ct := w.Specs.Contracts[funcKey(fn)]
		for _, p := range ct.Props {
			if p == id {
				out = append(out, fn)
			}
		}
	}
	return out
}

func (w *World) runProperty(id string) *propRun {
	pr := &propRun{id: id, w: w, trusted: map[string]bool{}, inlined: map[string]bool{}, unsup: map[string][]string{}}
	seen := map[string]bool{}
	work := w.propFuncs(id)
	for len(work) > 0 {
		fn := work[0]
		work = work[1:]
		k := funcKey(fn)
		if seen[k] {
			continue
		}
		seen[k] = true
		c := w.VerifyFunc(fn)
		pr.ctxs = append(pr.ctxs, c)
		pr.funcs = append(pr.funcs, shortFuncKey(fn))
		pr.obls = append(pr.obls, c.Obls...)
		if len(c.Unsupported) > 0 {
			pr.unsup[shortFuncKey(fn)] = c.Unsupported
		}
		pr.notes = append(pr.notes, c.Notes...)
		for uk := range c.usedContracts {
			if strings.HasPrefix(uk, "inlined:") {
				pr.inlined[strings.TrimPrefix(uk, "inlined:")] = true
				continue
			}
			ct := w.Specs.Contracts[uk]
			if ct == nil {
				continue
			}
			if ct.Kind != "func" || ct.Trusted {
				pr.trusted[uk] = true
				continue
			}
			if g := w.FuncByKey[uk]; g != nil && !seen[uk] {
				work = append(work, g)
			}
		}
		for u := range c.usedUF {
			pr.trusted["uf:"+u] = true
		}
	}
	// lemmas
	for _, l := range w.Specs.Lemmas {
		for _, p := range l.Props {
			if p == id {
				if c := w.lemmaCtx(l); c != nil {
					pr.ctxs = append(pr.ctxs, c)
					pr.obls = append(pr.obls, c.Obls...)
				}
			}
		}
	}
	if id == "C18" {
		// the frame at the level of the whole repository: no function outside
		// package initialisation writes a package-level variable (or memory one
		// load away from it). An in-place append to a global slice is allowed
		// only in a function under contract, where its frame[append] obligation
		// decides it.
		c := NewCtx(w, nil, ModeInt)
		found := w.scanGlobalWrites()
		o := &Obligation{Name: "repository#global-scan[completed]", Kind: "globalwrite", Goal: "true", Text: fmt.Sprintf("scan of every function for writes to package-level variables: %d candidate(s)", len(found)), Ctx: c, Blk: -1}
		c.Obls = append(c.Obls, o)
		for _, gw := range found {
			goal := "false"
			if strings.HasPrefix(gw.How, "append") {
				if ct := w.Specs.Contracts[gw.Func]; ct != nil && !ct.Trusted && ct.HasAssigns {
					goal = "true"
				}
			}
			c.Obls = append(c.Obls, &Obligation{Name: fmt.Sprintf("repository#global-write[%s in %s: %s]", strings.TrimPrefix(gw.Global, w.ModPath+"/go/"), strings.TrimPrefix(gw.Func, w.ModPath+"/go/"), gw.How), Kind: "globalwrite", Goal: goal, Text: "write to a package-level variable outside initialisation at " + gw.Pos, Ctx: c, Blk: -1})
		}
		pr.ctxs = append(pr.ctxs, c)
		pr.obls = append(pr.obls, c.Obls...)
	}
	sort.Strings(pr.funcs)
	return pr
}

func (w *World) lemmaCtx(l *LemmaDecl) *Ctx {
	mode := ModeInt
	if l.Arith == "bv" {
		mode = ModeBV
	}
	c := NewCtx(w, nil, mode)
	return c
}

type evidence struct {
	PropertyID  string                 `json:"property_id"`
	Tier        string                 `json:"tier"`
	Seed        int                    `json:"seed"`
	Level       string                 `json:"level"`
	Coverage    map[string]interface{} `json:"coverage"`
	Assumptions []string               `json:"assumptions"`
	WallS       float64                `json:"wall_s"`
	Violations  int                    `json:"violations"`
}

func cmdCheck(args []string) {
	if len(args) < 1 {
		fmt.Fprintln(os.Stderr, "usage: govc check <property> [quick|thorough]")
		os.Exit(2)
	}
	id := args[0]
	tier := "quick"
	if len(args) > 1 {
		tier = args[1]
	}
	if t := os.Getenv("VERIF_TIER"); t != "" && len(args) < 2 {
		tier = t
	}
	seed := 0
	if s := os.Getenv("VERIF_SEED"); s != "" {
		seed, _ = strconv.Atoi(s)
	}
	t0 := time.Now()
	w, err := LoadWorld(repoRoot, specDir(), nil)
	if err != nil {
		fmt.Fprintln(os.Stderr, "govc: cannot load /repo:", err)
		// a tree that does not build cannot be verified; not a property verdict
		os.Exit(2)
	}
	// (runs on deliberately mutated trees, tools/try_seeded.sh, must not overwrite the evidence of the real tree)
	code := w.checkProperty(id, tier, seed, t0, os.Getenv("GOVC_NO_EVIDENCE") == "")
	if tier == "thorough" && code == 0 {
		runCanaries(id, seed)
		// engine self-test (must-fail / must-pass corpus), once per build of govc
		exe, _ := os.Executable()
		stamp := filepath.Join(verifDir, "work", "selftest.stamp")
		want := ""
		if st, err := os.Stat(exe); err == nil {
			want = st.ModTime().String()
		}
		if data, err := os.ReadFile(stamp); err != nil || string(data) != want {
			if rc := cmdSelftest(); rc == 0 {
				os.WriteFile(stamp, []byte(want), 0644)
				fmt.Println("ENGINE-SELFTEST ok")
			} else {
				fmt.Println("ENGINE-SELFTEST BROKEN (see lines above): proofs of this engine build are not to be trusted")
				code = 2
			}
		}
	}
	os.Exit(code)
}

// runCanaries (thorough tier): every seeded change recorded for the property
// under /verif/seeded is applied to an in-memory copy of the affected files
// (the tree in /repo is not touched), the property's quick check is run on
// that view and must report at least one violation. The outcome is printed
// as CANARY lines and added to the evidence file; it does not change the
// verdict on the real tree.
func runCanaries(id string, seed int) {
	dirs, _ := filepath.Glob(filepath.Join(verifDir, "seeded", "*"))
	sort.Strings(dirs)
	var report []map[string]interface{}
	for _, d := range dirs {
		var meta struct {
			Property string `json:"property"`
			Expected string `json:"expected"` // "missed": a documented limit of the claim, not a regression
		}
		data, err := os.ReadFile(filepath.Join(d, "meta.json"))
		if err != nil || json.Unmarshal(data, &meta) != nil || meta.Property != id {
			continue
		}
		overlay, err := patchedOverlay(filepath.Join(d, "patch.diff"))
		name := filepath.Base(d)
		if err != nil {
			fmt.Printf("CANARY %s not-applicable (%v)\n", name, err)
			report = append(report, map[string]interface{}{"seeded": name, "status": "patch does not apply to the current tree: " + err.Error()})
			continue
		}
		w2, err := LoadWorld(repoRoot, specDir(), overlay)
		if err != nil {
			fmt.Printf("CANARY %s not-applicable (does not load: %v)\n", name, err)
			report = append(report, map[string]interface{}{"seeded": name, "status": "mutated tree does not load"})
			continue
		}
		var buf bytes.Buffer
		w2.out = &buf
		w2.replayRoot = filepath.Join(verifDir, "work", "canary", name)
		code := w2.checkProperty(id, "quick", seed, time.Now(), false)
		n := strings.Count(buf.String(), "VIOLATION ")
		status := "caught"
		if code != 1 || n == 0 {
			status = "MISSED"
			if meta.Expected == "missed" {
				status = "known-miss (documented limit of the claim)"
			}
		}
		fmt.Printf("CANARY %s %s (%d violation line(s) on the mutated view)\n", name, status, n)
		report = append(report, map[string]interface{}{"seeded": name, "status": status, "violation_lines": n})
	}
	if len(report) == 0 {
		return
	}
	path := filepath.Join(verifDir, "evidence", id+".json")
	var ev map[string]interface{}
	if data, err := os.ReadFile(path); err == nil && json.Unmarshal(data, &ev) == nil {
		if cov, ok := ev["coverage"].(map[string]interface{}); ok {
			cov["canaries"] = report
			data, _ := json.MarshalIndent(ev, "", " ")
			os.WriteFile(path, data, 0644)
		}
	}
}

// patchedOverlay applies a unified diff to copies of the files it names and
// returns their new contents keyed by their path under /repo.
func patchedOverlay(patchFile string) (map[string][]byte, error) {
	data, err := os.ReadFile(patchFile)
	if err != nil {
		return nil, err
	}
	tmp, err := os.MkdirTemp("", "govc-canary-")
	if err != nil {
		return nil, err
	}
	defer os.RemoveAll(tmp)
	var files []string
	for _, l := range strings.Split(string(data), "\n") {
		if strings.HasPrefix(l, "+++ b/") {
			files = append(files, strings.TrimSpace(strings.TrimPrefix(l, "+++ b/")))
		}
	}
	if len(files) == 0 {
		return nil, fmt.Errorf("no files in patch")
	}
	for _, f := range files {
		src, err := os.ReadFile(filepath.Join(repoRoot, f))
		if err != nil {
			return nil, err
		}
		os.MkdirAll(filepath.Dir(filepath.Join(tmp, f)), 0755)
		os.WriteFile(filepath.Join(tmp, f), src, 0644)
	}
	cmd := exec.Command("patch", "-p1", "-s", "-f", "-d", tmp, "-i", patchFile)
	if out, err := cmd.CombinedOutput(); err != nil {
		return nil, fmt.Errorf("patch: %v: %s", err, firstLines(string(out), 2))
	}
	ov := map[string][]byte{}
	for _, f := range files {
		b, err := os.ReadFile(filepath.Join(tmp, f))
		if err != nil {
			return nil, err
		}
		ov[filepath.Join(repoRoot, f)] = b
	}
	return ov, nil
}

func (w *World) printf(f string, a ...interface{}) {
	if w.out != nil {
		fmt.Fprintf(w.out, f, a...)
		return
	}
	fmt.Printf(f, a...)
}

func (w *World) checkProperty(id, tier string, seed int, t0 time.Time, writeEvidence bool) int {
	timeout := quickTimeout
	if tier == "thorough" {
		timeout = 60
	}
	pr := w.runProperty(id)
	workDir := filepath.Join(verifDir, "work", id)
	os.RemoveAll(workDir)
	os.MkdirAll(workDir, 0755)
	base := loadBaseline().Props[id]
	var slowSkipped []string
	if tier != "thorough" {
		var keep []*Obligation
		for _, o := range pr.obls {
			if strings.HasSuffix(base[o.Name], ":slow") || strings.HasSuffix(base[o.Name], ":undecided") {
				slowSkipped = append(slowSkipped, o.Name)
				continue
			}
			keep = append(keep, o)
		}
		pr.obls = keep
	} else {
		timeout = 90
	}
	results := dischargeAll(pr.obls, workDir, timeout, 16)
	known := loadKnown()
	byName := map[string]*Result{}
	for _, n := range slowSkipped {
		byName[n] = &Result{Status: "skipped"}
	}
	for _, r := range results {
		byName[r.Obl.Name] = r
	}
	unverifiable := map[string]bool{}
	for _, c := range pr.ctxs {
		if len(c.Unsupported) > 0 && c.Fn != nil {
			unverifiable[funcKey(c.Fn)] = true
		}
	}
	violations := 0
	reportedFunc := map[string]bool{}
	broken := 0
	undecidedNew := 0
	claimed, discharged := 0, 0
	byBackend := map[string]int{}
	solverTime := 0.0
	var samples []map[string]interface{}
	var notClaimed []string
	var knownLines []string
	replayDir := filepath.Join(verifDir, "replay", id)
	if w.replayRoot != "" {
		replayDir = filepath.Join(w.replayRoot, id)
	}
	report := func(r *Result, why string) {
		violations++
		os.MkdirAll(replayDir, 0755)
		path, reproduced := w.writeReplay(replayDir, id, r, why)
		suffix := ""
		if !reproduced {
			suffix = " no-failing-input-found"
		}
		w.printf("VIOLATION property=%s replay=%s obligation=%q reason=%q%s\n", id, path, r.Obl.Name, why, suffix)
	}
	for _, r := range results {
		if r.SumS > 0 {
			solverTime += r.SumS
		} else {
			solverTime += r.TimeS
		}
		o := r.Obl
		_, inBase := base[o.Name]
		knownUndecided := strings.HasSuffix(base[o.Name], ":undecided")
		if knownUndecided {
			inBase = false
		}
		if o.Kind == "cover" {
			if r.Status != "cover-ok" {
				if inBase {
					w.printf("BROKEN vacuity: %s: %s (%s)\n", o.Name, r.Status, r.Reason)
					broken++
				}
			}
			continue
		}
		ok := r.Status == "proved" && !unverifiable[o.Func]
		if ok {
			byBackend[r.Solver]++
		}
		if inBase {
			claimed++
			if ok {
				discharged++
				if len(samples) < 12 {
					samples = append(samples, map[string]interface{}{"obligation": o.Name, "text": o.Text, "solver": r.Solver, "time_s": round3(r.TimeS), "where": w.posString(o.Pos)})
				}
				continue
			}
		}
		if ok {
			// proved but not (yet) in the baseline: fine, counted as extra
			continue
		}
		// failing obligation: known finding?
		if kf := known.match(id, o.Name); kf != nil {
			st := w.checkKnown(kf, r, workDir, timeout)
			switch st {
			case "confined":
				line := fmt.Sprintf("KNOWN-FINDING: property=%s %s [obligation %s fails only where %s]", id, kf.What, o.Name, kf.Except)
				knownLines = append(knownLines, line)
				w.printf("%s\n", line)
				if inBase {
					discharged++ // discharged outside the recorded region
				}
				continue
			case "stale":
				continue
			}
			// escapes the recorded region: a different violation
			report(r, "fails outside the recorded known finding: "+r.Status+" "+r.Reason)
			continue
		}
		if unverifiable[o.Func] {
			if inBase {
				// one line per function whose contract no longer applies
				if !reportedFunc[o.Func] {
					reportedFunc[o.Func] = true
					report(r, "function left the verified subset (all of its obligations are unproved): "+strings.Join(pr.unsup[strings.TrimPrefix(o.Func, w.ModPath+"/go/")], "; "))
				} else {
					violations++
				}
			} else {
				notClaimed = append(notClaimed, o.Name+" (unverifiable)")
			}
			continue
		}
		if inBase {
			report(r, "proved on the baseline tree, now "+r.Status+" ("+r.Reason+")")
			continue
		}
		if o.Kind == "globalwrite" && r.Status != "proved" {
			// decided by the scan itself: there is no input to replay
			report(r, "a function outside package initialisation writes a package-level variable: "+o.Text)
			continue
		}
		if r.Status == "refuted" || r.Status == "refuted-candidate" {
			// new obligation (or never proved): a violation if it replays ...
			if w.replayReproduces(id, r) {
				report(r, "new obligation refuted and counterexample reproduced")
				continue
			}
			// ... or if it is a safety obligation (panic / allocation) that did not
			// exist on the baseline tree, in a function all of whose obligations
			// were discharged there: the no-panic claim for that function no
			// longer has a proof, and the solver has a (quantifier-free) candidate
			if !knownUndecided && safetyKind(o.Kind) && funcInBaseline(base, o.Func, w.ModPath) {
				report(r, "new "+o.Kind+" obligation in a function under contract is not provable ("+r.Status+": "+trunc(r.Reason, 160)+")")
				continue
			}
		}
		undecidedNew++
		notClaimed = append(notClaimed, o.Name+" ("+r.Status+")")
		if base != nil {
			w.printf("UNDECIDED obligation=%q status=%s reason=%q\n", o.Name, r.Status, r.Reason)
		}
	}
	// baseline obligations that were not generated at all
	var missing []string
	for name, kind := range base {
		if _, ok := byName[name]; !ok && !strings.HasSuffix(kind, ":undecided") && contractLevel(strings.TrimSuffix(kind, ":slow")) {
			missing = append(missing, name)
		}
	}
	sort.Strings(missing)
	for _, m := range missing {
		violations++
		claimed++
		fnOf := m
		if i := strings.Index(m, "#"); i >= 0 {
			fnOf = m[:i]
		}
		if reportedFunc["missing:"+fnOf] || reportedFunc[w.ModPath+"/go/"+fnOf] {
			continue
		}
		reportedFunc["missing:"+fnOf] = true
		os.MkdirAll(replayDir, 0755)
		path := filepath.Join(replayDir, safeName(m)+".json")
		data, _ := json.MarshalIndent(map[string]interface{}{"property": id, "obligation": m, "reason": "contract-level obligation of the baseline was not generated: the function under contract is gone, renamed, or its contract no longer resolves", "unsupported": pr.unsup}, "", " ")
		os.WriteFile(path, data, 0644)
		w.printf("VIOLATION property=%s replay=%s obligation=%q reason=%q no-failing-input-found\n", id, path, m, "obligation no longer generated")
	}
	if len(base) == 0 {
		w.printf("BROKEN: no baseline obligations for %s\n", id)
		broken++
	}
	if writeEvidence {
		var tb []string
		for k := range pr.trusted {
			tb = append(tb, "assumed contract: "+k)
		}
		for k := range pr.inlined {
			tb = append(tb, "inlined (no own contract): "+k)
		}
		axs := map[string]bool{}
		for _, c := range pr.ctxs {
			for _, a := range c.axiomsUsed {
				axs[a] = true
			}
		}
		for a := range axs {
			tb = append(tb, "axiom (definitional, assumed): "+a)
		}
		sort.Strings(tb)
		tb = append(tb, "go/packages, go/types, go/ssa (x/tools v0.29.0) front end; govc SSA-to-SMT translation; z3 4.8.12 / z3 5.1.0 / cvc5 1.0.3",
			"type invariants assumed for inputs: integer ranges of their Go types, 0<=len<=cap<=2^48 for slices/strings, references below the allocation frontier",
			"contents of error values and formatted strings are abstract (nil-ness and identity of package-level sentinel errors only)",
			"machine arithmetic is not treated as mathematical: int mode uses mathematical integers with an explicit wrap-around per operation and range facts per type, bv mode 64-bit vectors; shifts by a symbolic amount in int mode are uninterpreted; floating point is outside the subset",
			"no goroutines, channels, select, unsafe or reflection in the verified subset; termination only where a decreases clause is listed")
		sort.Strings(notClaimed)
		if len(samples) == 0 {
			samples = append(samples, map[string]interface{}{"note": "no obligation discharged"})
		}
		ev := evidence{PropertyID: id, Tier: tier, Seed: seed, Level: "proof", WallS: round3(time.Since(t0).Seconds()), Violations: violations,
			Coverage: map[string]interface{}{
				"obligations":              claimed,
				"discharged":               discharged,
				"checker_cmd":              fmt.Sprintf("bin/check %s %s", id, tier),
				"trusted_base":             tb,
				"functions_under_contract": pr.funcs,
				"by_backend":               byBackend,
				"solver_time_s":            round3(solverTime),
				"samples":                  samples,
				"generated_obligations":    len(results),
				"not_claimed":              notClaimed,
				"slow_thorough_only":       slowSkipped,
				"undecided_new":            undecidedNew,
				"unverified_functions":     pr.unsup,
				"known_findings":           knownLines,
				"notes":                    dedup(pr.notes),
				"explanation":              "contract-based deductive verification: obligations generated by govc from go/ssa of /repo's working tree and the //@ contracts in zz_contracts_verif.go; one SMT query per obligation; 'obligations' counts the obligations claimed in baseline.json, 'discharged' those proved unsat on this run",
			},
			Assumptions: tb,
		}
		os.MkdirAll(filepath.Join(verifDir, "evidence"), 0755)
		data, _ := json.MarshalIndent(ev, "", " ")
		os.WriteFile(filepath.Join(verifDir, "evidence", id+".json"), data, 0644)
	}
	w.printf("property %s: %d obligations claimed, %d discharged, %d generated, %d violations, %d undecided-new, %.1fs\n", id, claimed, discharged, len(results), violations, undecidedNew, time.Since(t0).Seconds())
	if violations > 0 {
		return 1
	}
	if broken > 0 {
		return 2
	}
	return 0
}

func safetyKind(k string) bool {
	switch k {
	case "bounds", "nil", "div", "alloc", "unreachable", "typeassert", "conv", "frame":
		// (frame: a write outside the assigns clause is a write to memory the
		// contract promises to leave alone)
		return true
	}
	return false
}

// funcInBaseline: some obligation of fn is claimed (proved) in the baseline.
func funcInBaseline(base map[string]string, fn, modPath string) bool {
	short := strings.TrimPrefix(fn, modPath+"/go/")
	for name, kind := range base {
		if strings.HasPrefix(name, short+"#") && !strings.HasSuffix(kind, ":undecided") {
			return true
		}
	}
	return false
}

func dedup(in []string) []string {
	seen := map[string]bool{}
	var out []string
	for _, s := range in {
		if !seen[s] {
			seen[s] = true
			out = append(out, s)
		}
	}
	sort.Strings(out)
	return out
}

func round3(f float64) float64 { return float64(int(f*1000+0.5)) / 1000 }

func (k *KnownFindings) match(prop, obl string) *KnownFinding {
	for i := range k.Findings {
		f := &k.Findings[i]
		if f.Obligation == obl && (f.Property == prop || f.Property == "*") {
			return f
		}
	}
	return nil
}

// checkKnown decides whether a failing obligation is exactly the recorded
// finding: it must be provable outside the recorded region ("confined").
func (w *World) checkKnown(kf *KnownFinding, r *Result, dir string, timeout int) string {
	o := r.Obl
	c := o.Ctx
	if c.entryEnv == nil || kf.Except == "" {
		return "escapes"
	}
	e, err := ParseExpr(kf.Except)
	if err != nil {
		return "escapes"
	}
	before := len(c.Log)
	t, err := c.entryEnv.boolTerm(e)
	if err != nil {
		return "escapes"
	}
	extra := append([]string{}, c.Log[before:]...)
	c.Log = c.Log[:before]
	o2 := *o
	o2.Name = o.Name + "#outside-known"
	o2.Extra = append(extra, "(assert (not "+t+"))")
	if len(o.Parts) > 0 {
		o2.Parts = nil
		for _, p := range o.Parts {
			p2 := *p
			p2.Extra = append(append([]string{}, extra...), "(assert (not "+t+"))")
			o2.Parts = append(o2.Parts, &p2)
		}
	}
	r2 := discharge(&o2, dir, timeout, false)
	if r2.Status != "proved" {
		r.Status, r.Reason, r.Model = r2.Status, "outside known region: "+r2.Reason, r2.Model
		return "escapes"
	}
	return "confined"
}

// cmdBaseline records the obligations proved on the current tree.
// quick tier: per-query time-out, and the margin under which a proved
// obligation is claimed for the quick tier (slower ones are thorough-only)
const quickTimeout = 20
const quickMargin = 8.0

func cmdBaseline(args []string) {
	w, err := LoadWorld(repoRoot, specDir(), nil)
	if err != nil {
		fmt.Fprintln(os.Stderr, err)
		os.Exit(2)
	}
	b := loadBaseline()
	known := loadKnown()
	runs := 2
	for _, id := range args {
		var sets []map[string]string
		for i := 0; i < runs; i++ {
			pr := w.runProperty(id)
			workDir := filepath.Join(verifDir, "work", id)
			os.RemoveAll(workDir)
			results := dischargeAll(pr.obls, workDir, quickTimeout, 16)
			set := map[string]string{}
			unverifiable := map[string]bool{}
			for _, c := range pr.ctxs {
				if len(c.Unsupported) > 0 && c.Fn != nil {
					unverifiable[funcKey(c.Fn)] = true
					fmt.Printf("unverifiable %s: %v\n", shortFuncKey(c.Fn), c.Unsupported)
				}
			}
			var second []*Obligation
			for _, r := range results {
				if unverifiable[r.Obl.Func] {
					continue
				}
				// quick-tier margin: only obligations decided in well under the time-out
				if (r.Status == "proved" && r.TimeS < quickMargin) || r.Status == "cover-ok" {
					set[r.Obl.Name] = r.Obl.Kind
				} else if kf := known.match(id, r.Obl.Name); kf != nil && w.checkKnown(kf, r, workDir, quickTimeout) == "confined" {
					set[r.Obl.Name] = r.Obl.Kind
				} else if r.Status == "proved" || r.Status == "undecided" || r.Status == "refuted-candidate" {
					// second chance with the thorough-tier time-out: claimed for the thorough tier only
					second = append(second, r.Obl)
				} else if i == 0 {
					fmt.Printf("not claimed: %s %s %.1fs %s\n", r.Status, r.Obl.Name, r.TimeS, trunc(r.Reason, 200))
				}
			}
			for _, r2 := range dischargeAll(second, workDir, 90, 4) {
				if r2.Status == "proved" {
					set[r2.Obl.Name] = r2.Obl.Kind + ":slow"
					if i == 0 {
						fmt.Printf("slow (thorough only): %s %.1fs\n", r2.Obl.Name, r2.TimeS)
					}
				} else {
					// recorded as undecided on the baseline tree: never claimed, never an
					// alarm; lets the check tell it from an obligation that is new
					set[r2.Obl.Name] = r2.Obl.Kind + ":undecided"
					if i == 0 {
						fmt.Printf("not claimed: %s %s %.1fs %s\n", r2.Status, r2.Obl.Name, r2.TimeS, trunc(r2.Reason, 200))
					}
				}
			}
			sets = append(sets, set)
		}
		final := map[string]string{}
		for k, v := range sets[0] {
			all := true
			for _, s := range sets[1:] {
				if _, ok := s[k]; !ok {
					all = false
				}
			}
			if all {
				final[k] = v
			}
		}
		b.Props[id] = final
		fmt.Printf("%s: %d obligations in baseline\n", id, len(final))
	}
	data, _ := json.MarshalIndent(b, "", " ")
	os.WriteFile(filepath.Join(verifDir, "baseline.json"), data, 0644)
}

func init() { debugReplay = os.Getenv("GOVC_DEBUG") != "" }

var debugReplay bool
