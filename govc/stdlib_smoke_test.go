package main

// Smoke test of the behavioural part of the assumed standard-library
// contracts in stdlib/*.spec: each clause below is the hand-written executable
// reading of one assumed `ensures`, run against the real function on a
// boundary corpus. It does not prove the contracts (they stay assumptions,
// listed in every evidence file); it catches a contract that is plainly wrong.
//
//	cd /verif/govc && go test -run StdlibSmoke .

import (
	"bytes"
	"encoding/base64"
	"encoding/binary"
	"io"
	"io/ioutil"
	"math"
	"net/http"
	"regexp"
	"strconv"
	"strings"
	"testing"
	"time"
)

func allDigits(s string) bool {
	for i := 0; i < len(s); i++ {
		if s[i] < '0' || s[i] > '9' {
			return false
		}
	}
	return true
}

func TestStdlibSmokeAtoiAndRegexp(t *testing.T) {
	re := regexp.MustCompile("^\\d\\d\\d$")
	corpus := []string{"", "0", "200", "2000", "20", "20x", "x20", "200x", "200\n", "２００", "٢٠٠", "-20", "+20", " 200", "999", "000",
		"123456789012345678", "999999999999999999", "1234567890123456789", "9223372036854775807", "9223372036854775808", strings.Repeat("9", 40)}
	for a := 0; a < 256; a++ {
		corpus = append(corpus, string([]byte{byte(a), '0', '0'}), string([]byte{'0', byte(a), '0'}), string([]byte{'0', '0', byte(a)}), string([]byte{'0', '0', '0', byte(a)}))
	}
	for _, s := range corpus {
		want := len(s) == 3 && allDigits(s)
		if got := re.MatchString(s); got != want {
			t.Errorf("MatchString(%q) = %v, contract says %v", s, got, want)
		}
		if len(s) >= 1 && len(s) <= 18 && allDigits(s) {
			n, err := strconv.Atoi(s)
			if err != nil || n < 0 {
				t.Errorf("Atoi(%q) = %d, %v; contract says nil error and n >= 0", s, n, err)
			}
		}
	}
}

func TestStdlibSmokeParseIntFormatInt(t *testing.T) {
	// ParseInt(s, 10, 64) and FormatInt(n, 10) are inverse on int64 (used as
	// uninterpreted parseIntOK/parseIntVal/fmtInt; only the pairing matters)
	for _, n := range []int64{0, 1, -1, 9, 10, -10, math.MaxInt64, math.MinInt64, 1 << 32, -(1 << 40)} {
		s := strconv.FormatInt(n, 10)
		m, err := strconv.ParseInt(s, 10, 64)
		if err != nil || m != n {
			t.Errorf("ParseInt(FormatInt(%d)) = %d, %v", n, m, err)
		}
	}
}

func TestStdlibSmokeTime(t *testing.T) {
	const off = 62135596800
	for _, sec := range []int64{0, 1, -1, math.MaxInt64 - off, math.MaxInt64 - off + 1, math.MaxInt64, math.MinInt64, -off, -off - 1} {
		tm := time.Unix(sec, 0)
		// Unix() returns the second count it was built from, even where the
		// internal representation wrapped (both wrap the same way)
		if tm.Unix() != sec {
			t.Errorf("time.Unix(%d).Unix() = %d", sec, tm.Unix())
		}
	}
	a, b := time.Unix(100, 5), time.Unix(100, 6)
	if !a.Before(b) || a.After(b) || !b.After(a) || a.Before(a) {
		t.Errorf("Before/After on equal seconds")
	}
	// the wrap the F16 finding rests on
	w := time.Unix(math.MaxInt64-off+1, 0)
	if !w.Before(time.Unix(0, 0)) {
		t.Errorf("expected time.Unix above MaxInt64-62135596800 to wrap into the past")
	}
	if d := time.Unix(math.MaxInt64-off, 0).Sub(time.Unix(0, 0)); d != math.MaxInt64 {
		t.Errorf("Sub does not saturate: %d", d)
	}
	if !(time.Time{}).IsZero() || time.Unix(0, 0).IsZero() {
		t.Errorf("IsZero")
	}
}

type limitedWriter struct {
	n int
}

func (w *limitedWriter) Write(p []byte) (int, error) {
	if len(p) > w.n {
		k := w.n
		w.n = 0
		return k, io.ErrShortWrite
	}
	w.n -= len(p)
	return len(p), nil
}

func TestStdlibSmokeIO(t *testing.T) {
	data := []byte("0123456789")
	for _, n := range []int64{-1, 0, 9, 10, 11} {
		src := bytes.NewReader(data)
		var dst bytes.Buffer
		written, err := io.CopyN(&dst, src, n)
		switch {
		case n < 0:
			if written != 0 || err != nil || dst.Len() != 0 || src.Len() != len(data) {
				t.Errorf("CopyN n<0: %d %v", written, err)
			}
		default:
			if written < 0 || written > n || (err == nil) != (written == n) || int64(dst.Len()) != written {
				t.Errorf("CopyN(%d): %d %v", n, written, err)
			}
			if !bytes.Equal(dst.Bytes(), data[:written]) {
				t.Errorf("CopyN(%d) content", n)
			}
		}
	}
	for _, l := range []int{0, 1, 9, 10, 11} {
		buf := make([]byte, l)
		src := bytes.NewReader(data)
		n, err := io.ReadFull(src, buf)
		if (err == nil) != (n == l) || (err == io.EOF && n != 0) || (err != nil && n > 0 && err == io.EOF) || !bytes.Equal(buf[:n], data[:n]) {
			t.Errorf("ReadFull(%d): %d %v", l, n, err)
		}
	}
	bs, err := ioutil.ReadAll(bytes.NewReader(data[3:]))
	if err != nil || !bytes.Equal(bs, data[3:]) {
		t.Errorf("ReadAll")
	}
	var b bytes.Buffer
	if err := binary.Write(&b, binary.BigEndian, uint64(0x0102030405060708)); err != nil || !bytes.Equal(b.Bytes(), []byte{1, 2, 3, 4, 5, 6, 7, 8}) {
		t.Errorf("binary.Write uint64")
	}
	b.Reset()
	if err := binary.Write(&b, binary.BigEndian, uint16(0x0102)); err != nil || !bytes.Equal(b.Bytes(), []byte{1, 2}) {
		t.Errorf("binary.Write uint16")
	}
	for l := 0; l <= 9; l++ {
		var v uint64
		r := bytes.NewReader([]byte{1, 2, 3, 4, 5, 6, 7, 8, 9}[:l])
		err := binary.Read(r, binary.BigEndian, &v)
		consumed := l - r.Len()
		switch {
		case err == nil:
			if consumed != 8 || v != 0x0102030405060708 {
				t.Errorf("binary.Read ok: %d %x", consumed, v)
			}
		case err == io.EOF:
			if consumed != 0 || l != 0 {
				t.Errorf("binary.Read EOF with %d consumed of %d", consumed, l)
			}
		default:
			if consumed >= 8 {
				t.Errorf("binary.Read error after %d bytes", consumed)
			}
		}
	}
	w := &limitedWriter{n: 3}
	n, err := w.Write(data)
	if !(n < len(data) && err != nil) {
		t.Errorf("short write must carry an error")
	}
}

func TestStdlibSmokeBytesStrings(t *testing.T) {
	vals := [][]byte{nil, {}, {0}, {1}, {0, 0}, {0, 1}, {255}, {1, 0}}
	for _, a := range vals {
		for _, b := range vals {
			c := bytes.Compare(a, b)
			if c < -1 || c > 1 || c != -bytes.Compare(b, a) || (c == 0) != bytes.Equal(a, b) {
				t.Errorf("Compare(%v,%v) = %d", a, b, c)
			}
		}
	}
	for _, s := range []string{"", "a\rb", "a\nb", "ab", "\r", "\n"} {
		want := strings.IndexByte(s, '\r') >= 0 || strings.IndexByte(s, '\n') >= 0
		if strings.ContainsAny(s, "\r\n") != want {
			t.Errorf("ContainsAny(%q)", s)
		}
	}
	for _, s := range []string{"", "ABC", "aBc", "É", "\xff"} {
		l := strings.ToLower(s)
		if strings.ToLower(l) != l {
			t.Errorf("ToLower not idempotent on %q", s)
		}
	}
	if http.CanonicalHeaderKey(http.CanonicalHeaderKey("variant-key")) != http.CanonicalHeaderKey("variant-key") {
		t.Errorf("CanonicalHeaderKey not idempotent")
	}
	h := http.Header{}
	h.Add("variants", "a")
	h.Add("Variants", "b")
	if h.Get("VARIANTS") != "a" || len(h[http.CanonicalHeaderKey("variants")]) != 2 {
		t.Errorf("Header model: Get returns the first value under the canonical key")
	}
	// base64.StdEncoding.DecodeString refuses anything outside its alphabet (and CR/LF are skipped: F13)
	if _, err := base64.StdEncoding.DecodeString("AA*="); err == nil {
		t.Errorf("base64 accepted '*'")
	}
	if _, err := base64.StdEncoding.DecodeString("AA\r\n=="); err != nil {
		t.Errorf("base64 is expected to skip CR/LF (the reason for fix F13)")
	}
}
