package main

import (
	"flag"
	"fmt"
	"os"
	"path/filepath"
	"sort"
	"strings"
)

var (
	repoRoot = "/repo"
	verifDir = "/verif"
)

func main() {
	if len(os.Args) < 2 {
		fmt.Fprintln(os.Stderr, "usage: govc <verify|check|list|baseline|selftest|replay> ...")
		os.Exit(2)
	}
	if d := os.Getenv("GOVC_REPO"); d != "" {
		repoRoot = d
	}
	if d := os.Getenv("GOVC_VERIF"); d != "" {
		verifDir = d
	}
	switch os.Args[1] {
	case "verify":
		cmdVerify(os.Args[2:])
	case "check":
		cmdCheck(os.Args[2:])
	case "list":
		cmdList(os.Args[2:])
	case "baseline":
		cmdBaseline(os.Args[2:])
	case "globals":
		w, err := LoadWorld(repoRoot, specDir(), nil)
		if err != nil {
			fmt.Fprintln(os.Stderr, err)
			os.Exit(2)
		}
		for _, gw := range w.scanGlobalWrites() {
			fmt.Printf("%s\t%s\t%s\t%s\n", gw.Global, gw.How, gw.Func, gw.Pos)
		}
	default:
		fmt.Fprintln(os.Stderr, "unknown command", os.Args[1])
		os.Exit(2)
	}
}

func specDir() string { return filepath.Join(verifDir, "govc", "stdlib") }

func cmdList(args []string) {
	w, err := LoadWorld(repoRoot, specDir(), nil)
	if err != nil {
		fmt.Fprintln(os.Stderr, err)
		os.Exit(2)
	}
	var ks []string
	for k := range w.FuncByKey {
		if strings.HasPrefix(k, w.ModPath) {
			ks = append(ks, k)
		}
	}
	sort.Strings(ks)
	for _, k := range ks {
		mark := " "
		if w.Specs.Contracts[k] != nil {
			mark = "C"
		}
		fmt.Println(mark, strings.TrimPrefix(k, w.ModPath+"/go/"))
	}
}

// cmdVerify: development driver. govc verify [-t sec] [-keep dir] pattern...
func cmdVerify(args []string) {
	fs := flag.NewFlagSet("verify", flag.ExitOnError)
	timeout := fs.Int("t", 10, "solver timeout (s)")
	keep := fs.String("keep", "/tmp/govc-q", "query directory")
	verbose := fs.Bool("v", false, "verbose")
	fs.Parse(args)
	w, err := LoadWorld(repoRoot, specDir(), nil)
	if err != nil {
		fmt.Fprintln(os.Stderr, err)
		os.Exit(2)
	}
	var obls []*Obligation
	var ctxs []*Ctx
	for _, fn := range w.contractFuncs() {
		k := shortFuncKey(fn)
		match := fs.NArg() == 0
		for _, p := range fs.Args() {
			if strings.Contains(k, p) {
				match = true
			}
		}
		if !match {
			continue
		}
		c := w.VerifyFunc(fn)
		ctxs = append(ctxs, c)
		obls = append(obls, c.Obls...)
		for _, u := range c.Unsupported {
			fmt.Printf("UNSUPPORTED %s: %s\n", k, u)
		}
		if *verbose {
			for _, n := range c.Notes {
				fmt.Printf("NOTE %s: %s\n", k, n)
			}
		}
	}
	res := dischargeAll(obls, *keep, *timeout, 16)
	counts := map[string]int{}
	for _, r := range res {
		counts[r.Status]++
		if r.Status != "proved" && r.Status != "cover-ok" || *verbose {
			fmt.Printf("%-12s %-8s %6.2fs %s   // %s %s\n", r.Status, r.Solver, r.TimeS, r.Obl.Name, r.Obl.Text, trunc(r.Reason, 300))
		}
	}
	fmt.Println(counts)
}


func trunc(s string, n int) string {
	if len(s) > n {
		return s[:n] + "..."
	}
	return s
}
