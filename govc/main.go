package main

import (
	"flag"
	"fmt"
	"os"
	"path/filepath"
	"sort"
	"strings"
)

var (
	repoRoot = "/repo"
	verifDir = "/verif"
)

func main() {
	if len(os.Args) < 2 {
		fmt.Fprintln(os.Stderr, "usage: govc <verify|check|list|baseline|selftest|replay> ...")
		os.Exit(2)
	}
	if d := os.Getenv("GOVC_REPO"); d != "" {
		repoRoot = d
	}
	if d := os.Getenv("GOVC_VERIF"); d != "" {
		verifDir = d
	}
	switch os.Args[1] {
	case "verify":
		cmdVerify(os.Args[2:])
	case "check":
		cmdCheck(os.Args[2:])
	case "list":
		cmdList(os.Args[2:])
	case "baseline":
		cmdBaseline(os.Args[2:])
	case "selftest":
		os.Exit(cmdSelftest())
	case "globals":
		w, err := LoadWorld(repoRoot, specDir(), nil)
		if err != nil {
			fmt.Fprintln(os.Stderr, err)
			os.Exit(2)
		}
		for _, gw := range w.scanGlobalWrites() {
			fmt.Printf("%s\t%s\t%s\t%s\n", gw.Global, gw.How, gw.Func, gw.Pos)
		}
	default:
		fmt.Fprintln(os.Stderr, "unknown command", os.Args[1])
		os.Exit(2)
	}
}

func specDir() string { return filepath.Join(verifDir, "govc", "stdlib") }

func cmdList(args []string) {
	w, err := LoadWorld(repoRoot, specDir(), nil)
	if err != nil {
		fmt.Fprintln(os.Stderr, err)
		os.Exit(2)
	}
	var ks []string
	for k := range w.FuncByKey {
		if strings.HasPrefix(k, w.ModPath) {
			ks = append(ks, k)
		}
	}
	sort.Strings(ks)
	for _, k := range ks {
		mark := " "
		if w.Specs.Contracts[k] != nil {
			mark = "C"
		}
		fmt.Println(mark, strings.TrimPrefix(k, w.ModPath+"/go/"))
	}
}

// cmdVerify: development driver. govc verify [-t sec] [-keep dir] pattern...
func cmdVerify(args []string) {
	fs := flag.NewFlagSet("verify", flag.ExitOnError)
	timeout := fs.Int("t", 10, "solver timeout (s)")
	keep := fs.String("keep", "/tmp/govc-q", "query directory")
	verbose := fs.Bool("v", false, "verbose")
	fs.Parse(args)
	w, err := LoadWorld(repoRoot, specDir(), nil)
	if err != nil {
		fmt.Fprintln(os.Stderr, err)
		os.Exit(2)
	}
	var obls []*Obligation
	var ctxs []*Ctx
	for _, fn := range w.contractFuncs() {
		k := shortFuncKey(fn)
		match := fs.NArg() == 0
		for _, p := range fs.Args() {
			if strings.Contains(k, p) {
				match = true
			}
		}
		if !match {
			continue
		}
		c := w.VerifyFunc(fn)
		ctxs = append(ctxs, c)
		obls = append(obls, c.Obls...)
		for _, u := range c.Unsupported {
			fmt.Printf("UNSUPPORTED %s: %s\n", k, u)
		}
		if *verbose {
			for _, n := range c.Notes {
				fmt.Printf("NOTE %s: %s\n", k, n)
			}
		}
	}
	res := dischargeAll(obls, *keep, *timeout, 16)
	counts := map[string]int{}
	for _, r := range res {
		counts[r.Status]++
		if r.Status != "proved" && r.Status != "cover-ok" || *verbose {
			fmt.Printf("%-12s %-8s %6.2fs %s   // %s %s\n", r.Status, r.Solver, r.TimeS, r.Obl.Name, r.Obl.Text, trunc(r.Reason, 300))
		}
	}
	fmt.Println(counts)
}


func trunc(s string, n int) string {
	if len(s) > n {
		return s[:n] + "..."
	}
	return s
}


// cmdSelftest verifies the functions of govc/selftest, injected through an
// overlay into a small package of /repo: every mustfailN must have an
// obligation that is not proved, every mustpassN must be proved completely.
func cmdSelftest() int {
	dir := filepath.Join(repoRoot, "go", "signedexchange", "internal", "bigendian")
	overlay := map[string][]byte{}
	for _, f := range []string{"zz_selftest.go", "zz_selftest_contracts_verif.go"} {
		data, err := os.ReadFile(filepath.Join(verifDir, "govc", "selftest", f))
		if err != nil {
			fmt.Fprintln(os.Stderr, "selftest:", err)
			return 2
		}
		overlay[filepath.Join(dir, f)] = data
	}
	w, err := LoadWorld(repoRoot, specDir(), overlay)
	if err != nil {
		fmt.Fprintln(os.Stderr, "selftest: cannot load:", err)
		return 2
	}
	if err := w.Specs.LoadSpecFile(filepath.Join(verifDir, "govc", "selftest", "zz_selftest_contracts_verif.go"), w.ModPath+"/go/signedexchange/internal/bigendian"); err != nil {
		fmt.Fprintln(os.Stderr, "selftest: contracts:", err)
		return 2
	}
	bad := 0
	var keys []string
	for k := range w.FuncByKey {
		if strings.Contains(k, "bigendian.mustfail") || strings.Contains(k, "bigendian.mustpass") {
			keys = append(keys, k)
		}
	}
	sort.Strings(keys)
	work := filepath.Join(verifDir, "work", "selftest")
	os.RemoveAll(work)
	for _, k := range keys {
		fn := w.FuncByKey[k]
		c := w.VerifyFunc(fn)
		results := dischargeAll(c.Obls, work, 4, 16)
		unproved := 0
		first := ""
		for _, r := range results {
			if r.Obl.Kind == "cover" {
				continue
			}
			if r.Status != "proved" && r.Status != "cover-ok" {
				unproved++
				if first == "" {
					first = r.Obl.Name + " (" + r.Status + ")"
				}
			}
		}
		if len(c.Unsupported) > 0 {
			unproved++
			first = "unsupported: " + c.Unsupported[0]
		}
		short := k[strings.LastIndex(k, ".")+1:]
		switch {
		case strings.HasPrefix(short, "mustfail") && unproved == 0:
			fmt.Printf("SELFTEST BROKEN %s: every obligation was proved (%d obligations): the engine accepts a false contract\n", short, len(results))
			bad++
		case strings.HasPrefix(short, "mustpass") && unproved > 0:
			fmt.Printf("SELFTEST BROKEN %s: %d obligation(s) not proved, first: %s\n", short, unproved, first)
			bad++
		default:
			fmt.Printf("selftest ok %s (%d obligations, %d not proved%s)\n", short, len(results), unproved, map[bool]string{true: ": " + first, false: ""}[first != ""])
		}
	}
	if len(keys) < 14 {
		fmt.Printf("SELFTEST BROKEN: only %d self-test functions found\n", len(keys))
		bad++
	}
	if bad > 0 {
		return 1
	}
	return 0
}
