package main

// Symbolic execution of go/ssa function bodies into guarded SMT assertions
// and named proof obligations.

import (
	"fmt"
	"go/token"
	"go/types"
	"math/big"
	"sort"
	"strings"

	"golang.org/x/tools/go/ssa"
)

type retRec struct {
	guard string
	vals  []Val
	st    *State
	pos   token.Pos
	idx   int
}

type edgeIn struct {
	from  *ssa.BasicBlock
	guard string
	st    *State
}

type loopInfo struct {
	header  *ssa.BasicBlock
	body    map[*ssa.BasicBlock]bool
	ordinal int
	spec    *LoopSpec
	// captured at header processing
	entrySt   *State
	headSt    *State
	headGuard string
	variant0  string
	autoInv   []autoInv
	backs     []string
}

type autoInv struct {
	text string
	mk   func(get func(ssa.Value) string) string
}

type Frame struct {
	c        *Ctx
	fn       *ssa.Function
	vals     map[ssa.Value]Val
	top      bool
	contract *Contract
	entry    *State
	rets     []retRec
	depth    int
	loops    map[*ssa.BasicBlock]*loopInfo
	assertDone map[string]bool
	atInstr    int // index in the current block of the instruction an anchored assertion stands before (-1: none)
	curBlock *ssa.BasicBlock
	curGuard string
	params   map[string]Val
	callOrd  map[string]int
	panics   []retRec
	retBlocks []int
	dbg      map[string][]ssa.Value
	dbgSite  map[string]map[ssa.Value][]ssa.Instruction
	textOrd  map[string]int
}

func (c *Ctx) newFrame(fn *ssa.Function, top bool) *Frame {
	f := &Frame{c: c, fn: fn, vals: map[ssa.Value]Val{}, top: top, loops: map[*ssa.BasicBlock]*loopInfo{}, params: map[string]Val{}, callOrd: map[string]int{}, textOrd: map[string]int{}, atInstr: -1}
	f.contract = c.W.Specs.Contracts[funcKey(fn)]
	return f
}

// ---- obligations -----------------------------------------------------------

func (f *Frame) oblige(kind, key, goal string, pos token.Pos, text string) *Obligation {
	c := f.c
	if c.suppress > 0 {
		return nil
	}
	if goal == "true" {
		// still count trivially true obligations? no: they carry no information.
		return nil
	}
	// In a function whose contract declares panics an accepted way of
	// rejecting input (may_panic), a run-time panic ends the path: the
	// condition is assumed afterwards instead of being an obligation.
	if top := c.W.Specs.Contracts[funcKey(c.Fn)]; top != nil && top.MayPanic {
		switch kind {
		case "bounds", "nil", "div", "typeassert", "alloc":
			c.assume(f.curGuard, goal)
			return nil
		case "requires":
			if strings.HasSuffix(key, "][panic") {
				c.assume(f.curGuard, goal)
				return nil
			}
		}
	}
	name := fmt.Sprintf("%s#%s[%s]", shortFuncKey(c.Fn), kind, key)
	if f.fn != c.Fn {
		name = fmt.Sprintf("%s#%s[%s@%s]", shortFuncKey(c.Fn), kind, key, shortFuncKey(f.fn))
	}
	n := c.oblNames[name]
	c.oblNames[name] = n + 1
	if n > 0 {
		name = fmt.Sprintf("%s#%d", name, n)
	}
	o := &Obligation{Name: name, Kind: kind, Func: funcKey(c.Fn), Guard: f.curGuard, Goal: goal, Prefix: len(c.Log), Pos: pos, Text: text, Ctx: c, Blk: c.curTopBlock}
	c.Obls = append(c.Obls, o)
	return o
}

// srcKey gives a stable key for an instruction: its source text (normalised)
// if available, else a per-kind ordinal.
func (f *Frame) srcKey(pos token.Pos, fallback string) string {
	txt := ""
	if pos.IsValid() {
		txt = f.c.W.sourceSnippet(pos)
	}
	if txt == "" {
		txt = fallback
	}
	n := f.textOrd[txt]
	f.textOrd[txt] = n + 1
	if n > 0 {
		return fmt.Sprintf("%s#%d", txt, n)
	}
	return txt
}

// ---- values ------------------------------------------------------------------

func (f *Frame) val(v ssa.Value) Val {
	c := f.c
	switch x := v.(type) {
	case *ssa.Const:
		return c.constVal(x)
	case *ssa.Global:
		return f.globalPtr(x)
	case *ssa.Function:
		return Val{T: fmt.Sprintf("(* %d %s)", 900000+c.funcID(x), refStride), Typ: x.Type(), Fn: x}
	case *ssa.Builtin:
		return Val{Typ: x.Type()}
	}
	if r, ok := f.vals[v]; ok {
		return r
	}
	c.unsupported("value %s (%T) not available in %s", v.Name(), v, f.fn.Name())
	t := v.Type()
	nm := c.fresh("undef")
	c.declConst(nm, c.sortOf(t))
	return Val{T: q(nm), Typ: t}
}

func (c *Ctx) funcID(fn *ssa.Function) int {
	k := "func:" + funcKey(fn)
	if id, ok := c.typeIDs[k]; ok {
		return id
	}
	id := len(c.typeIDs) + 1
	c.typeIDs[k] = id
	return id
}

func (f *Frame) globalPtr(g *ssa.Global) Val {
	c := f.c
	t := g.Type().(*types.Pointer).Elem()
	// Every global is an object with a fixed, distinct, pre-allocated reference.
	name := "glob$" + mangle(g.Pkg.Pkg.Path()) + "." + g.Name()
	if !c.declared[name] {
		c.declConst(name, "Int")
		id := len(c.W.globalIDs)
		if v, ok := c.W.globalIDs[name]; ok {
			id = v
		} else {
			c.W.globalIDs[name] = id
		}
		c.Decls = append(c.Decls, fmt.Sprintf("(assert (= %s (* %d %s)))", q(name), id+1, refStride))
		c.globalFacts(g, q(name))
	}
	_ = t
	return Val{T: q(name), Typ: g.Type()}
}

// bind names an SSA value.
func (f *Frame) bind(v ssa.Value, val Val) {
	c := f.c
	if val.T != "" && val.Typ != nil {
		if _, isTuple := val.Typ.(*types.Tuple); !isTuple {
			val.T = c.name(fmt.Sprintf("%s.%s", f.fn.Name(), v.Name()), val.T, c.sortOf(val.Typ))
		}
	}
	f.vals[v] = val
}

// freshVal declares an unconstrained value of type t with its type facts.
func (f *Frame) freshVal(hint string, t types.Type, st *State, guard string) Val {
	c := f.c
	if tup, ok := t.(*types.Tuple); ok {
		var vs []Val
		for i := 0; i < tup.Len(); i++ {
			vs = append(vs, f.freshVal(fmt.Sprintf("%s.%d", hint, i), tup.At(i).Type(), st, guard))
		}
		return Val{Typ: t, Tup: vs}
	}
	nm := c.fresh(hint)
	c.declConst(nm, c.sortOf(t))
	alloc := ""
	if st != nil {
		alloc = c.allocTerm(st)
	}
	c.assume(guard, c.typeFacts(q(nm), t, alloc))
	return Val{T: q(nm), Typ: t}
}

// ---- CFG helpers -----------------------------------------------------------------

func isBackEdge(from, to *ssa.BasicBlock) bool { return to.Dominates(from) }

func rpo(fn *ssa.Function) []*ssa.BasicBlock {
	seen := map[*ssa.BasicBlock]bool{}
	var post []*ssa.BasicBlock
	var dfs func(b *ssa.BasicBlock)
	dfs = func(b *ssa.BasicBlock) {
		seen[b] = true
		for _, s := range b.Succs {
			if !seen[s] && !isBackEdge(b, s) {
				dfs(s)
			}
		}
		post = append(post, b)
	}
	dfs(fn.Blocks[0])
	for i, j := 0, len(post)-1; i < j; i, j = i+1, j-1 {
		post[i], post[j] = post[j], post[i]
	}
	return post
}

func (f *Frame) findLoops() {
	var headers []*ssa.BasicBlock
	for _, b := range f.fn.Blocks {
		for _, s := range b.Succs {
			if isBackEdge(b, s) {
				li := f.loops[s]
				if li == nil {
					li = &loopInfo{header: s, body: map[*ssa.BasicBlock]bool{s: true}}
					f.loops[s] = li
					headers = append(headers, s)
				}
				// natural loop of back edge b->s
				var stack []*ssa.BasicBlock
				if !li.body[b] {
					li.body[b] = true
					stack = append(stack, b)
				}
				for len(stack) > 0 {
					x := stack[len(stack)-1]
					stack = stack[:len(stack)-1]
					for _, p := range x.Preds {
						if !li.body[p] {
							li.body[p] = true
							stack = append(stack, p)
						}
					}
				}
			}
		}
	}
	sort.Slice(headers, func(i, j int) bool { return headers[i].Index < headers[j].Index })
	for i, h := range headers {
		f.loops[h].ordinal = i
		if f.contract != nil {
			f.loops[h].spec = f.contract.Loops[i]
		}
	}
}

// ---- main loop -------------------------------------------------------------------

func (f *Frame) run(st *State, guard string) {
	c := f.c
	fn := f.fn
	if len(fn.Blocks) == 0 {
		c.unsupported("function %s has no body", fn.Name())
		return
	}
	f.entry = st.clone()
	f.findLoops()
	f.collectDebug()
	in := map[*ssa.BasicBlock][]edgeIn{}
	in[fn.Blocks[0]] = []edgeIn{{nil, guard, st}}
	for _, b := range rpo(fn) {
		ins := in[b]
		if len(ins) == 0 {
			continue
		}
		if f.top {
			c.curTopBlock = b.Index
		}
		var guards []string
		var sts []*State
		for _, e := range ins {
			guards = append(guards, e.guard)
			sts = append(sts, e.st)
		}
		g := or(guards...)
		gname := c.fresh(fmt.Sprintf("reach$%s.%d", fn.Name(), b.Index))
		c.declConst(gname, "Bool")
		c.assert(eq(q(gname), g))
		cur := c.mergeStates(guards, sts)
		f.curBlock = b
		f.curGuard = q(gname)
		// phis
		phiVals := map[*ssa.Phi]string{}
		for _, ins2 := range b.Instrs {
			phi, ok := ins2.(*ssa.Phi)
			if !ok {
				break
			}
			var terms []string
			for _, e := range ins {
				idx := predIndex(b, e.from)
				terms = append(terms, f.val(phi.Edges[idx]).T)
			}
			t := terms[len(terms)-1]
			for i := len(terms) - 2; i >= 0; i-- {
				t = ite(guards[i], terms[i], t)
			}
			phiVals[phi] = t
		}
		if li := f.loops[b]; li != nil {
			f.enterLoop(li, cur, phiVals)
			cur = li.headSt.clone()
		} else {
			for phi, t := range phiVals {
				f.bind(phi, Val{T: t, Typ: phi.Type()})
			}
		}
		// instructions
		alive := true
		for _, ins2 := range b.Instrs {
			if _, ok := ins2.(*ssa.Phi); ok {
				continue
			}
			if !f.exec(ins2, cur) {
				alive = false
				break
			}
		}
		if !alive {
			continue
		}
		// terminator
		last := b.Instrs[len(b.Instrs)-1]
		switch t := last.(type) {
		case *ssa.If:
			cond := f.val(t.Cond).T
			f.edge(in, b, b.Succs[0], and(f.curGuard, cond), cur)
			f.edge(in, b, b.Succs[1], and(f.curGuard, not(cond)), cur)
		case *ssa.Jump:
			f.edge(in, b, b.Succs[0], f.curGuard, cur)
		case *ssa.Return:
			var vs []Val
			for _, r := range t.Results {
				vs = append(vs, f.val(r))
			}
			f.rets = append(f.rets, retRec{guard: f.curGuard, vals: vs, st: cur, pos: t.Pos(), idx: len(f.rets)})
			f.retBlocks = append(f.retBlocks, b.Index)
		case *ssa.Panic:
			f.panics = append(f.panics, retRec{guard: f.curGuard, st: cur, pos: t.Pos(), idx: len(f.panics)})
		}
	}
}

func predIndex(b, from *ssa.BasicBlock) int {
	for i, p := range b.Preds {
		if p == from {
			return i
		}
	}
	return 0
}

func (f *Frame) edge(in map[*ssa.BasicBlock][]edgeIn, from, to *ssa.BasicBlock, guard string, st *State) {
	if isBackEdge(from, to) {
		f.backEdge(f.loops[to], from, guard, st)
		return
	}
	// a predecessor may appear twice (both branches to same block): keep separate entries
	in[to] = append(in[to], edgeIn{from, guard, st.clone()})
}

// ---- loops -----------------------------------------------------------------------

type havocTarget struct {
	heap string
	key  string // "" = every key
	cond string // "" = unconditional; else the write happens only if cond holds
	// qbind: non-empty for a quantified target "forall k T :: g ==> target":
	// the SMT binder list; key and cond mention the bound variables.
	qbind string
}

func (f *Frame) loopTargets(li *loopInfo, cur *State) ([]havocTarget, bool) {
	c := f.c
	var out []havocTarget
	all := false
	outside := func(v ssa.Value) bool {
		switch x := v.(type) {
		case *ssa.Const, *ssa.Global, *ssa.Parameter, *ssa.FreeVar, *ssa.Function:
			return true
		case ssa.Instruction:
			return !li.body[x.Block()]
		}
		return false
	}
	var blocks []*ssa.BasicBlock
	for b := range li.body {
		blocks = append(blocks, b)
	}
	sort.Slice(blocks, func(i, j int) bool { return blocks[i].Index < blocks[j].Index })
	var addrTargets func(addr ssa.Value, t types.Type)
	addrTargets = func(addr ssa.Value, t types.Type) {
		switch a := addr.(type) {
		case *ssa.FieldAddr:
			st := a.X.Type().Underlying().(*types.Pointer).Elem()
			ft := st.Underlying().(*types.Struct).Field(a.Field).Type()
			if isStruct(ft) {
				// store of whole nested struct: havoc all its field heaps
				c.structHeaps(ft, func(h string) { out = append(out, havocTarget{h, "", "", ""}) })
				return
			}
			h, _ := c.fieldHeap(st, a.Field)
			if _, isAlloc := a.X.(*ssa.Alloc); isAlloc && !outside(a.X) {
				// object allocated inside the loop: fresh each iteration
				out = append(out, havocTarget{h, "", "", ""})
				return
			}
			if outside(a.X) {
				if v := f.val(a.X); v.T != "" {
					out = append(out, havocTarget{h, v.T, "", ""})
					return
				}
			}
			out = append(out, havocTarget{h, "", "", ""})
		case *ssa.IndexAddr:
			var elem types.Type
			switch u := a.X.Type().Underlying().(type) {
			case *types.Slice:
				elem = u.Elem()
			case *types.Pointer:
				elem = u.Elem().Underlying().(*types.Array).Elem()
			}
			if elem == nil {
				all = true
				return
			}
			h, _ := c.memHeap(elem)
			if outside(a.X) {
				v := f.val(a.X)
				if _, isSl := a.X.Type().Underlying().(*types.Slice); isSl && v.T != "" {
					out = append(out, havocTarget{h, "(sl.base " + v.T + ")", "", ""})
					return
				} else if v.T != "" {
					out = append(out, havocTarget{h, v.T, "", ""})
					return
				}
			}
			out = append(out, havocTarget{h, "", "", ""})
		case *ssa.Alloc:
			et := a.Type().(*types.Pointer).Elem()
			key := ""
			if outside(a) {
				key = f.val(a).T
			}
			switch u := et.Underlying().(type) {
			case *types.Struct:
				if key != "" {
					out = append(out, c.objTargets(key, et)...)
				} else {
					c.structHeaps(et, func(h string) { out = append(out, havocTarget{h, "", "", ""}) })
				}
			case *types.Array:
				h, _ := c.memHeap(u.Elem())
				out = append(out, havocTarget{h, key, "", ""})
			default:
				h, _ := c.cellHeap(et)
				out = append(out, havocTarget{h, key, "", ""})
			}
		case *ssa.Global:
			all = true
		case *ssa.FreeVar:
			et := a.Type().(*types.Pointer).Elem()
			if isStruct(et) || isArray(et) {
				all = true
				return
			}
			h, _ := c.cellHeap(et)
			out = append(out, havocTarget{h, f.val(a).T, "", ""})
		default:
			// pointer value (parameter, phi, load...)
			et, ok := addr.Type().Underlying().(*types.Pointer)
			if !ok {
				all = true
				return
			}
			key := ""
			if outside(addr) {
				key = f.val(addr).T
			}
			switch u := et.Elem().Underlying().(type) {
			case *types.Struct:
				if key != "" {
					out = append(out, c.objTargets(key, et.Elem())...)
				} else {
					c.structHeaps(et.Elem(), func(h string) { out = append(out, havocTarget{h, "", "", ""}) })
				}
			case *types.Array:
				h, _ := c.memHeap(u.Elem())
				out = append(out, havocTarget{h, key, "", ""})
			default:
				h, _ := c.cellHeap(et.Elem())
				out = append(out, havocTarget{h, key, "", ""})
			}
		}
	}
	for _, b := range blocks {
		for _, ins := range b.Instrs {
			switch x := ins.(type) {
			case *ssa.Store:
				addrTargets(x.Addr, x.Val.Type())
			case *ssa.MapUpdate:
				m := x.Map.Type().Underlying().(*types.Map)
				d, v := c.mapHeaps(m)
				key := ""
				if outside(x.Map) {
					key = f.val(x.Map).T
				}
				out = append(out, havocTarget{d, key, "", ""}, havocTarget{v, key, "", ""})
			case *ssa.Alloc, *ssa.MakeSlice, *ssa.MakeMap, *ssa.MakeClosure, *ssa.MakeInterface:
				out = append(out, havocTarget{allocHeap, "", "", ""})
				if a, ok := x.(*ssa.Alloc); ok {
					// zero-initialisation writes
					addrTargets(a, nil)
				}
				if ms, ok := x.(*ssa.MakeSlice); ok {
					h, _ := c.memHeap(ms.Type().Underlying().(*types.Slice).Elem())
					_ = h // fresh base: only garbage locations change
				}
			case ssa.CallInstruction:
				ts, a := f.callTargets(x, outside, cur)
				out = append(out, ts...)
				if a {
					all = true
				}
			case *ssa.Next:
				// the iterator advances in the loop: its state (keys seen, position,
				// count) is arbitrary at the loop head, constrained by the invariants
				itKey := ""
				if iv, ok := f.vals[x.Iter]; ok && outside(x.Iter) {
					itKey = iv.T
				}
				if x.IsString {
					c.heapSort["IterPos"] = "(Array Int Int)"
					c.heapGet(cur, "IterPos", "(Array Int Int)")
					out = append(out, havocTarget{"IterPos", itKey, "", ""})
				} else if rng, ok := x.Iter.(*ssa.Range); ok {
					if mt, ok := rng.X.Type().Underlying().(*types.Map); ok {
						h := "IterSeen$" + typeKey(mt.Key())
						c.heapSort[h] = "(Array Int (Array " + c.sortOf(mt.Key()) + " Bool))"
						c.heapGet(cur, h, c.heapSort[h])
						out = append(out, havocTarget{h, itKey, "", ""})
						c.heapSort["IterCount"] = "(Array Int Int)"
						c.heapGet(cur, "IterCount", "(Array Int Int)")
						out = append(out, havocTarget{"IterCount", itKey, "", ""})
					}
				}
			case *ssa.Range:
				out = append(out, havocTarget{"$iter", "", "", ""})
			}
		}
	}
	if li.spec != nil {
		for _, m := range li.spec.Modifies {
			if m.Text == "*" {
				all = true
			}
		}
	}
	return out, all
}

func (c *Ctx) structHeaps(t types.Type, fn func(h string)) {
	s := t.Underlying().(*types.Struct)
	for i := 0; i < s.NumFields(); i++ {
		ft := s.Field(i).Type()
		if isStruct(ft) {
			c.structHeaps(ft, fn)
		} else {
			h, _ := c.fieldHeap(t, i)
			fn(h)
		}
	}
}

func (f *Frame) applyHavoc(st *State, targets []havocTarget, all bool, guard string) {
	c := f.c
	if all {
		var names []string
		for h := range c.heapSort {
			names = append(names, h)
		}
		sort.Strings(names)
		for _, h := range names {
			if h == allocHeap {
				continue
			}
			c.heapGet(st, h, c.heapSort[h])
			c.heapHavoc(st, h)
		}
		f.bumpAlloc(st)
		for _, h := range names {
			if h != allocHeap {
				c.frontier[st.H[h]] = c.allocTerm(st)
			}
		}
		return
	}
	// group by heap
	byHeap := map[string][]string{}
	whole := map[string]bool{}
	condOf := map[string]string{}
	var order []string
	quant := map[string][]havocTarget{}
	for _, t := range targets {
		if t.qbind != "" && t.key != "" {
			if _, ok := byHeap[t.heap]; !ok && !whole[t.heap] {
				order = append(order, t.heap)
				byHeap[t.heap] = nil
			}
			quant[t.heap] = append(quant[t.heap], t)
			continue
		}
		if t.key != "" {
			ck := t.heap + "\x00" + t.key
			if prev, seen := condOf[ck]; seen {
				if prev != "" && t.cond != "" {
					condOf[ck] = or(prev, t.cond)
				} else {
					condOf[ck] = ""
				}
			} else {
				condOf[ck] = t.cond
			}
		}
		if _, ok := byHeap[t.heap]; !ok && !whole[t.heap] {
			order = append(order, t.heap)
		}
		if t.key == "" {
			whole[t.heap] = true
		} else {
			dup := false
			for _, k := range byHeap[t.heap] {
				if k == t.key {
					dup = true
				}
			}
			if !dup {
				byHeap[t.heap] = append(byHeap[t.heap], t.key)
			}
		}
		if _, ok := byHeap[t.heap]; !ok {
			byHeap[t.heap] = nil
		}
	}
	for _, h := range order {
		if h == allocHeap {
			f.bumpAlloc(st)
		}
	}
	defer func() {
		// references stored in a havoc'd heap version existed by the end of the
		// havoc'd region (loop iteration / callee)
		for _, h := range order {
			if h == allocHeap || h == "$iter" {
				continue
			}
			if v, ok := st.H[h]; ok {
				c.frontier[v] = c.allocTerm(st)
			}
		}
	}()
	for _, h := range order {
		if h == allocHeap {
			continue
		}
		if h == "$iter" {
			continue
		}
		srt := c.heapSort[h]
		cur := c.heapGet(st, h, srt)
		if whole[h] {
			c.heapHavoc(st, h)
			continue
		}
		// element sort: strip "(Array Int " prefix
		es := strings.TrimSuffix(strings.TrimPrefix(srt, "(Array Int "), ")")
		t := cur
		for _, k := range byHeap[h] {
			fv := c.fresh("hv")
			c.declConst(fv, es)
			nv := q(fv)
			if cd := condOf[h+"\x00"+k]; cd != "" {
				nv = ite(cd, nv, "(select "+cur+" "+k+")")
			}
			t = "(store " + t + " " + k + " " + nv + ")"
		}
		if qs := quant[h]; len(qs) > 0 {
			// quantified targets: a new heap that agrees with the old one at
			// every key outside the described set
			base := c.name("hq", t, srt)
			nv := c.fresh("hqn")
			c.declConst(nv, srt)
			var alts []string
			for _, qt := range qs {
				alts = append(alts, "(exists "+qt.qbind+" "+and(qt.cond, eq("r!q", qt.key))+")")
			}
			alts = append(alts, eq("(select "+q(nv)+" r!q)", "(select "+base+" r!q)"))
			c.assume(guard, "(forall ((r!q Int)) (! "+or(alts...)+" :pattern ((select "+q(nv)+" r!q))))")
			t = q(nv)
		}
		c.heapSet(st, h, t)
	}
}

func (f *Frame) bumpAlloc(st *State) {
	c := f.c
	old := c.allocTerm(st)
	v := c.fresh("alloc")
	c.declConst(v, "Int")
	c.assert("(>= " + q(v) + " " + old + ")")
	st.H[allocHeap] = q(v)
}

func (f *Frame) enterLoop(li *loopInfo, cur *State, phiVals map[*ssa.Phi]string) {
	c := f.c
	b := li.header
	li.entrySt = cur.clone()
	// entry values of phis
	entryPhi := map[ssa.Value]Val{}
	for phi, t := range phiVals {
		entryPhi[phi] = Val{T: c.name(f.fn.Name()+"."+phi.Name()+".entry", t, c.sortOf(phi.Type())), Typ: phi.Type()}
	}
	f.inferLoopInvariants(li)
	// 1. invariants hold on entry
	for phi, v := range entryPhi {
		f.vals[phi] = v
	}
	f.checkInvariants(li, cur, "entry", token.NoPos)
	// 2. havoc
	targets, all := f.loopTargets(li, cur)
	hs := cur.clone()
	f.applyHavoc(hs, targets, all, f.curGuard)
	var phis []*ssa.Phi
	for _, ins := range b.Instrs {
		if phi, ok := ins.(*ssa.Phi); ok {
			phis = append(phis, phi)
		} else {
			break
		}
	}
	for _, phi := range phis {
		fv := f.freshVal(f.fn.Name()+"."+phi.Name(), phi.Type(), hs, f.curGuard)
		f.vals[phi] = fv
	}
	li.headSt = hs
	li.headGuard = f.curGuard
	// 3. assume invariants
	env := f.specEnv(hs, f.entry)
	env.at = b
	for _, ai := range li.autoInv {
		c.assume(f.curGuard, ai.mk(func(v ssa.Value) string { return f.val(v).T }))
	}
	if li.spec != nil {
		for _, inv := range li.spec.Invariants {
			t, err := env.boolTerm(inv.E)
			if err != nil {
				c.unsupported("loop %d invariant %q: %v", li.ordinal, inv.Text, err)
				continue
			}
			c.assume(f.curGuard, t)
		}
		if li.spec.Decreases != nil {
			t, err := env.intTerm(li.spec.Decreases.E)
			if err != nil {
				c.unsupported("loop %d decreases: %v", li.ordinal, err)
			} else {
				li.variant0 = c.name("variant", t, c.sortOf(mathInt))
			}
		}
	}
}

func (f *Frame) checkInvariants(li *loopInfo, st *State, when string, pos token.Pos) {
	c := f.c
	env := f.specEnv(st, f.entry)
	env.at = li.header
	env.goal = true
	for i, ai := range li.autoInv {
		g := ai.mk(func(v ssa.Value) string { return f.val(v).T })
		f.oblige("invariant."+when, fmt.Sprintf("loop %d auto %d: %s", li.ordinal, i, ai.text), g, li.header.Instrs[0].Pos(), ai.text)
	}
	if li.spec == nil {
		return
	}
	for i, inv := range li.spec.Invariants {
		t, err := env.boolTerm(inv.E)
		if err != nil {
			c.unsupported("loop %d invariant %q: %v", li.ordinal, inv.Text, err)
			continue
		}
		key := fmt.Sprintf("loop %d][%d", li.ordinal, i)
		if inv.Tag != "" {
			key = fmt.Sprintf("loop %d][%s", li.ordinal, inv.Tag)
		}
		f.oblige("invariant."+when, key, t, li.header.Instrs[0].Pos(), inv.Text)
	}
}

func (f *Frame) backEdge(li *loopInfo, from *ssa.BasicBlock, guard string, st *State) {
	c := f.c
	b := li.header
	saved := map[ssa.Value]Val{}
	idx := predIndex(b, from)
	for _, ins := range b.Instrs {
		phi, ok := ins.(*ssa.Phi)
		if !ok {
			break
		}
		saved[phi] = f.vals[phi]
	}
	// evaluate incoming values before rebinding (phis may reference each other)
	newVals := map[ssa.Value]Val{}
	for v := range saved {
		phi := v.(*ssa.Phi)
		newVals[phi] = f.val(phi.Edges[idx])
	}
	oldGuard := f.curGuard
	f.curGuard = guard
	for v, nv := range newVals {
		f.vals[v] = nv
	}
	if f.c.suppress == 0 && f.top {
		n := len(li.backs)
		li.backs = append(li.backs, guard)
		o := &Obligation{Name: fmt.Sprintf("%s#consistent[loop %d back edge %d]", shortFuncKey(f.c.Fn), li.ordinal, n), Kind: "cover", Func: funcKey(f.c.Fn), Guard: li.headGuard, Goal: "false", Prefix: len(f.c.Log), Ctx: f.c, Consistency: true, Blk: -1, Text: "assumptions inside the loop (invariants, callee contracts, axioms) are not contradictory"}
		f.c.Obls = append(f.c.Obls, o)
	}
	f.checkInvariants(li, st, "preserved", token.NoPos)
	if li.spec != nil && li.spec.Decreases != nil && li.variant0 != "" {
		env := f.specEnv(st, f.entry)
		env.at = b
		env.goal = true
		t, err := env.intTerm(li.spec.Decreases.E)
		if err == nil {
			var g string
			if c.Mode == ModeBV {
				g = fmt.Sprintf("(and (bvslt %s %s) (bvsle (_ bv0 64) %s))", t, li.variant0, li.variant0)
			} else {
				g = fmt.Sprintf("(and (< %s %s) (<= 0 %s))", t, li.variant0, li.variant0)
			}
			f.oblige("decreases", fmt.Sprintf("loop %d", li.ordinal), g, b.Instrs[0].Pos(), li.spec.Decreases.Text)
		}
	}
	for v, ov := range saved {
		f.vals[v] = ov
	}
	f.curGuard = oldGuard
}

// inferLoopInvariants adds bounds for canonical counters.
func (f *Frame) inferLoopInvariants(li *loopInfo) {
	c := f.c
	b := li.header
	bigOf := func(v ssa.Value) (*big.Int, bool) {
		k, ok := v.(*ssa.Const)
		if !ok || k.Value == nil {
			return nil, false
		}
		n, ok2 := new(big.Int).SetString(k.Value.ExactString(), 10)
		return n, ok2
	}
	cmp := func(op string, a, b2 string, t types.Type) string {
		if c.Mode == ModeBV {
			ii, _ := intInfoOf(t)
			m := map[string]string{"<=": "bvsle", "<": "bvslt"}
			if !ii.signed {
				m = map[string]string{"<=": "bvule", "<": "bvult"}
			}
			return "(" + m[op] + " " + a + " " + b2 + ")"
		}
		return "(" + op + " " + a + " " + b2 + ")"
	}
	outside := func(v ssa.Value) bool {
		switch x := v.(type) {
		case *ssa.Const, *ssa.Parameter, *ssa.FreeVar:
			return true
		case ssa.Instruction:
			return !li.body[x.Block()]
		}
		return false
	}
	for _, ins := range b.Instrs {
		phi, ok := ins.(*ssa.Phi)
		if !ok {
			break
		}
		if _, isInt := intInfoOf(phi.Type()); !isInt {
			continue
		}
		var initV, stepV ssa.Value
		okShape := true
		for i, p := range b.Preds {
			if isBackEdge(p, b) {
				if stepV != nil && stepV != phi.Edges[i] {
					okShape = false
				}
				stepV = phi.Edges[i]
			} else {
				if initV != nil && initV != phi.Edges[i] {
					okShape = false
				}
				initV = phi.Edges[i]
			}
		}
		if initV == nil || stepV == nil || !okShape {
			continue
		}
		bo, ok := stepV.(*ssa.BinOp)
		if !ok || bo.X != ssa.Value(phi) {
			continue
		}
		step, ok := bigOf(bo.Y)
		if !ok || step.Sign() <= 0 {
			continue
		}
		up := bo.Op == token.ADD
		if !up && bo.Op != token.SUB {
			continue
		}
		phiC, initC := phi, initV
		ptyp := phi.Type()
		if up {
			li.autoInv = append(li.autoInv, autoInv{text: fmt.Sprintf("%s >= init", phi.Comment), mk: func(get func(ssa.Value) string) string {
				return cmp("<=", get(initC), get(phiC), ptyp)
			}})
		} else {
			li.autoInv = append(li.autoInv, autoInv{text: fmt.Sprintf("%s <= init", phi.Comment), mk: func(get func(ssa.Value) string) string {
				return cmp("<=", get(phiC), get(initC), ptyp)
			}})
		}
		// upper bound from the loop condition
		var ifi *ssa.If
		condBlock := b
		if t, ok := b.Instrs[len(b.Instrs)-1].(*ssa.If); ok {
			ifi = t
		}
		if ifi == nil {
			continue
		}
		cb, ok := ifi.Cond.(*ssa.BinOp)
		if !ok {
			continue
		}
		_ = condBlock
		// exits when cond false: succ[1] outside loop
		if li.body[b.Succs[1]] || !li.body[b.Succs[0]] {
			continue
		}
		if up && cb.Op == token.LSS && outside(cb.Y) {
			bound := cb.Y
			if cb.X == ssa.Value(phi) && step.Cmp(big.NewInt(1)) == 0 {
				// i < B: i <= max(B, init)
				li.autoInv = append(li.autoInv, autoInv{text: fmt.Sprintf("%s <= max(bound, init)", phi.Comment), mk: func(get func(ssa.Value) string) string {
					return or(cmp("<=", get(phiC), get(bound), ptyp), cmp("<=", get(phiC), get(initC), ptyp))
				}})
			} else if cb.X == stepV && step.Cmp(big.NewInt(1)) == 0 {
				// rangeindex: i+1 < B with i from -1: i < B || i == init
				li.autoInv = append(li.autoInv, autoInv{text: fmt.Sprintf("%s < bound || %s == init", phi.Comment, phi.Comment), mk: func(get func(ssa.Value) string) string {
					return or(cmp("<", get(phiC), get(bound), ptyp), eq(get(phiC), get(initC)))
				}})
			}
		}
		if !up && cb.Op == token.GEQ && cb.X == ssa.Value(phi) {
			if lo, ok := bigOf(cb.Y); ok {
				lim := new(big.Int).Sub(lo, step)
				limT := c.numLit(lim, ptyp)
				li.autoInv = append(li.autoInv, autoInv{text: fmt.Sprintf("%s >= %s || %s == init", phi.Comment, lim, phi.Comment), mk: func(get func(ssa.Value) string) string {
					return or(cmp("<=", limT, get(phiC), ptyp), eq(get(phiC), get(initC)))
				}})
			}
		}
	}
}

// collectDebug records source names of SSA values (needs ssa.GlobalDebug).
func (f *Frame) collectDebug() {
	f.dbg = map[string][]ssa.Value{}
	f.dbgSite = map[string]map[ssa.Value][]ssa.Instruction{}
	add := func(name string, v ssa.Value, site ssa.Instruction) {
		if f.dbgSite[name] == nil {
			f.dbgSite[name] = map[ssa.Value][]ssa.Instruction{}
		}
		f.dbgSite[name][v] = append(f.dbgSite[name][v], site)
		for _, o := range f.dbg[name] {
			if o == v {
				return
			}
		}
		f.dbg[name] = append(f.dbg[name], v)
	}
	for _, b := range f.fn.Blocks {
		for _, ins := range b.Instrs {
			switch x := ins.(type) {
			case *ssa.DebugRef:
				if obj := x.Object(); obj != nil && !x.IsAddr {
					add(obj.Name(), x.X, x)
				} else if obj != nil && x.IsAddr {
					add("&"+obj.Name(), x.X, x)
				}
			case *ssa.Phi:
				if x.Comment != "" {
					add(x.Comment, x, x)
					// the index of an enclosing range loop by loop ordinal: rangeindex0, rangeindex1, ...
					if li, ok := f.loops[b]; ok && li != nil && x.Comment == "rangeindex" {
						add(fmt.Sprintf("rangeindex%d", li.ordinal), x, x)
					}
				}
			case *ssa.Alloc:
				if x.Comment != "" {
					add("&"+x.Comment, x, x)
				}
			}
		}
	}
}

// boundAt: the value v carries the source name at the program point (block
// at, instruction index f.atInstr or block entry) only if one of the places
// that give it the name (a reference or assignment in the source, or the phi
// itself) has been passed on every path to that point. A value defined early
// but assigned to the variable later ("prev = cur" at the end of a loop body)
// does not name the variable before that assignment. (Used as a preference:
// the builder records no naming site for the "x := e" that introduces a
// variable, so lookupLocal falls back to definition dominance when no
// candidate is bound.)
func (f *Frame) boundAt(name string, v ssa.Value, at *ssa.BasicBlock) bool {
	if at == nil {
		return true
	}
	sites := f.dbgSite[name][v]
	for _, s := range sites {
		blk := s.Block()
		if blk == at {
			if _, isPhi := s.(*ssa.Phi); isPhi {
				return true
			}
			if f.atInstr >= 0 && instrIndex(s) < f.atInstr {
				return true
			}
			continue
		}
		if blk.Dominates(at) {
			return true
		}
	}
	return false
}

// lookupLocal resolves a source-level variable name at the start of block at.
func (f *Frame) lookupLocal(name string, at *ssa.BasicBlock, st *State) (Val, bool) {
	c := f.c
	dominates := func(v ssa.Value) bool {
		switch x := v.(type) {
		case *ssa.Parameter, *ssa.FreeVar, *ssa.Const, *ssa.Global:
			return true
		case ssa.Instruction:
			if at == nil {
				return true
			}
			blk := x.Block()
			if blk == at {
				_, isPhi := v.(*ssa.Phi)
				if !isPhi && f.atInstr >= 0 {
					// resolving names for an assertion in the middle of the block:
					// what was computed earlier in the block is in scope
					return instrIndex(x) < f.atInstr
				}
				return isPhi
			}
			return blk.Dominates(at)
		}
		return false
	}
	var best ssa.Value
	// Prefer values that carry the name at this point (boundAt); only if there
	// is none fall back to any value of that name whose definition dominates
	// (the builder records no naming site for "x := e" itself).
	anyBound := false
	for _, v := range f.dbg[name] {
		if !dominates(v) {
			continue
		}
		if _, have := f.vals[v]; !have {
			continue
		}
		if _, isInstr := v.(ssa.Instruction); !isInstr || f.boundAt(name, v, at) {
			anyBound = true
		}
	}
	for _, v := range f.dbg[name] {
		if !dominates(v) {
			continue
		}
		if _, isInstr := v.(ssa.Instruction); isInstr && anyBound && !f.boundAt(name, v, at) {
			continue
		}
		if _, have := f.vals[v]; !have {
			if _, isConst := v.(*ssa.Const); !isConst {
				continue
			}
		}
		if best == nil {
			best = v
			continue
		}
		bi, ok1 := best.(ssa.Instruction)
		vi, ok2 := v.(ssa.Instruction)
		if ok1 && ok2 {
			if bi.Block() == vi.Block() {
				// later in block wins; phis of the 'at' block win
				if instrIndex(vi) > instrIndex(bi) {
					best = v
				}
			} else if bi.Block().Dominates(vi.Block()) {
				best = v
			}
		} else if !ok1 && ok2 {
			best = v
		}
	}
	if best != nil {
		return f.val(best), true
	}
	// a pure function of the header's phis defined in the header block itself
	// (the index variable of a range loop: i == rangeindex+1)
	if at != nil {
		for _, v := range f.dbg[name] {
			bo, ok := v.(*ssa.BinOp)
			if !ok || bo.Block() != at {
				continue
			}
			avail := func(x ssa.Value) bool {
				if _, isC := x.(*ssa.Const); isC {
					return true
				}
				_, have := f.vals[x]
				if !have {
					return false
				}
				if xi, ok := x.(ssa.Instruction); ok && xi.Block() == at {
					_, isPhi := x.(*ssa.Phi)
					return isPhi
				}
				return true
			}
			if avail(bo.X) && avail(bo.Y) {
				ak, _ := constBig(bo.X)
				bk, _ := constBig(bo.Y)
				t, _ := c.arith(bo.Op, f.val(bo.X), f.val(bo.Y), ak, bk, bo.Type())
				return Val{T: t, Typ: bo.Type()}, true
			}
		}
	}
	// address-taken variable: read its cell in the given state
	for _, v := range f.dbg["&"+name] {
		if !dominates(v) {
			continue
		}
		pv, have := f.vals[v]
		if !have {
			continue
		}
		et := v.Type().Underlying().(*types.Pointer).Elem()
		if isStruct(et) {
			// a struct variable is denoted by its address: fields and ghost state hang off it
			return Val{T: pv.T, Typ: v.Type()}, true
		}
		return Val{T: c.loadObj(st, pv.T, et), Typ: et}, true
	}
	return Val{}, false
}

func instrIndex(i ssa.Instruction) int {
	for k, x := range i.Block().Instrs {
		if x == i {
			return k
		}
	}
	return -1
}
