package main

// Loading of /repo (packages, SSA, contracts) and per-function verification.

import (
	"io"
	"fmt"
	"math/big"
	"go/token"
	"go/types"
	"os"
	"path/filepath"
	"sort"
	"strings"

	"golang.org/x/tools/go/packages"
	"golang.org/x/tools/go/ssa"
	"golang.org/x/tools/go/ssa/ssautil"
)

type tokenT = token.Token

var tokenMap = map[string]token.Token{
	"+": token.ADD, "-": token.SUB, "*": token.MUL, "/": token.QUO, "%": token.REM,
	"&": token.AND, "|": token.OR, "^": token.XOR, "&^": token.AND_NOT, "<<": token.SHL, ">>": token.SHR,
	"<": token.LSS, "<=": token.LEQ, ">": token.GTR, ">=": token.GEQ, "==": token.EQL, "!=": token.NEQ,
}

type World struct {
	out        io.Writer // where check results are printed (nil: stdout)
	replayRoot string    // where replay records go (empty: /verif/replay)
	replayImports map[string]string // import path -> name, needed by the replay test being generated
	Root      string
	ModPath   string
	Prog      *ssa.Program
	Pkgs      []*packages.Package
	Fset      *token.FileSet
	Specs     *Specs
	FuncByKey map[string]*ssa.Function
	globalIDs map[string]int
	srcCache  map[string][]string
	models    map[string]modelFn
	modelTargets map[string]func(c *Ctx) []havocTarget
	Overlay   map[string][]byte
	mutable   map[string]bool
	subOffsets map[string]int
	embedded   map[string]bool
	errGlobals map[string]int
}

type modelFn func(f *Frame, args []Val, rt types.Type, st *State, pos token.Pos) Val

func LoadWorld(root string, specDir string, overlay map[string][]byte) (*World, error) {
	w := &World{Root: root, ModPath: "github.com/WICG/webpackage", FuncByKey: map[string]*ssa.Function{}, globalIDs: map[string]int{}, srcCache: map[string][]string{}, Overlay: overlay, errGlobals: map[string]int{}}
	cfg := &packages.Config{Mode: packages.LoadAllSyntax, Dir: root, BuildFlags: []string{"-tags=verif"}, Overlay: overlay,
		Env: append(os.Environ(), "GOFLAGS=-mod=mod", "GOPROXY=off", "GOSUMDB=off", "GOTOOLCHAIN=local")}
	pkgs, err := packages.Load(cfg, "./go/...")
	if err != nil {
		return nil, err
	}
	nerr := 0
	packages.Visit(pkgs, nil, func(p *packages.Package) {
		for _, e := range p.Errors {
			fmt.Fprintf(os.Stderr, "load error: %v\n", e)
			nerr++
		}
	})
	if nerr > 0 {
		return nil, fmt.Errorf("%d package load errors", nerr)
	}
	w.Pkgs = pkgs
	prog, _ := ssautil.AllPackages(pkgs, ssa.GlobalDebug)
	prog.Build()
	w.Prog = prog
	w.Fset = prog.Fset
	for fn := range ssautil.AllFunctions(prog) {
		if fn.Synthetic != "" && fn.Name() != "init" {
			// wrappers and bound methods are not keyed
			if !strings.HasPrefix(fn.Synthetic, "package initializer") {
				continue
			}
		}
		w.FuncByKey[funcKey(fn)] = fn
	}
	w.Specs = NewSpecs()
	if err := w.Specs.LoadDirSpecs(specDir); err != nil {
		return nil, err
	}
	if overlay != nil {
		// contract files may be overlaid too: load from disk then apply overlay contents
	}
	if err := w.Specs.LoadRepoSpecs(root, w.ModPath); err != nil {
		return nil, err
	}
	w.initModels()
	return w, nil
}

func (w *World) sourceLines(file string) []string {
	if l, ok := w.srcCache[file]; ok {
		return l
	}
	var data []byte
	if w.Overlay != nil {
		if d, ok := w.Overlay[file]; ok {
			data = d
		}
	}
	if data == nil {
		data, _ = os.ReadFile(file)
	}
	l := strings.Split(string(data), "\n")
	w.srcCache[file] = l
	return l
}

// sourceSnippet returns the whitespace-normalised source line at pos.
func (w *World) sourceSnippet(pos token.Pos) string {
	p := w.Fset.Position(pos)
	if !p.IsValid() {
		return ""
	}
	lines := w.sourceLines(p.Filename)
	if p.Line-1 >= len(lines) {
		return ""
	}
	s := strings.Join(strings.Fields(lines[p.Line-1]), " ")
	if len(s) > 90 {
		s = s[:90]
	}
	return s
}

func (w *World) posString(pos token.Pos) string {
	p := w.Fset.Position(pos)
	if !p.IsValid() {
		return ""
	}
	rel, err := filepath.Rel(w.Root, p.Filename)
	if err != nil {
		rel = p.Filename
	}
	return fmt.Sprintf("%s:%d", rel, p.Line)
}

// pureReads returns the heaps a pure function may read (over-approximation:
// every heap known to the context).
func (w *World) pureReads(fn *ssa.Function) func(c *Ctx) []string {
	return func(c *Ctx) []string {
		// field heaps of structs reachable from parameters
		seen := map[string]bool{}
		var out []string
		var visit func(t types.Type, depth int)
		visit = func(t types.Type, depth int) {
			if depth > 3 {
				return
			}
			switch u := t.Underlying().(type) {
			case *types.Pointer:
				visit(u.Elem(), depth)
			case *types.Struct:
				for i := 0; i < u.NumFields(); i++ {
					ft := u.Field(i).Type()
					if isStruct(ft) {
						visit(ft, depth+1)
						continue
					}
					h, _ := c.fieldHeap(t, i)
					if !seen[h] {
						seen[h] = true
						out = append(out, h)
					}
					visit(ft, depth+1)
				}
			case *types.Slice:
				h, _ := c.memHeap(u.Elem())
				if !seen[h] {
					seen[h] = true
					out = append(out, h)
				}
			}
		}
		for _, p := range fn.Params {
			visit(p.Type(), 0)
		}
		sort.Strings(out)
		return out
	}
}

// VerifyFunc generates the obligations of one function under contract.
func (w *World) VerifyFunc(fn *ssa.Function) *Ctx {
	ct := w.Specs.Contracts[funcKey(fn)]
	mode := ModeInt
	if ct != nil && ct.Arith == "bv" {
		mode = ModeBV
	}
	c := NewCtx(w, fn, mode)
	if ct != nil && ct.Bounds == "strict" {
		c.strict = true
	}
	f := c.newFrame(fn, true)
	c.computeAncestors(fn)
	st := &State{H: map[string]string{}}
	alloc0 := c.heapGet(st, allocHeap, "Int")
	// the allocation frontier is a multiple of the stride, above every global
	c.declConst("alloc0$k", "Int")
	c.assert("(and (= " + alloc0 + " (* |alloc0$k| " + refStride + ")) (> |alloc0$k| 1000000))")
	f.curGuard = "true"
	declare := func(name string, t types.Type, v ssa.Value) {
		nm := "p$" + name
		if c.declared[nm] {
			nm = c.fresh(nm)
		}
		c.declConst(nm, c.sortOf(t))
		c.assert(c.typeFacts(q(nm), t, alloc0))
		val := Val{T: q(nm), Typ: t}
		f.vals[v] = val
		f.params[name] = val
		// what a parameter points to existed before the call: references held in
		// its fields are below the entry allocation frontier
		if pt, ok := t.Underlying().(*types.Pointer); ok {
			if stt, ok := pt.Elem().Underlying().(*types.Struct); ok {
				for i := 0; i < stt.NumFields(); i++ {
					ft := stt.Field(i).Type()
					switch ft.Underlying().(type) {
					case *types.Pointer, *types.Interface, *types.Slice, *types.Map:
						h, srt := c.fieldHeap(pt.Elem(), i)
						c.assert(implies(not(eq(q(nm), "0")), c.typeFacts("(select "+c.heapInit(h, srt)+" "+q(nm)+")", ft, alloc0)))
					}
				}
			}
		}
	}
	for _, fv := range fn.FreeVars {
		declare(fv.Name(), fv.Type(), fv)
		if _, isPtr := fv.Type().Underlying().(*types.Pointer); isPtr {
			c.assert(not(eq(f.vals[fv].T, "0"))) // address of a captured variable
		}
	}
	for _, p := range fn.Params {
		declare(p.Name(), p.Type(), p)
	}
	if recv := fn.Signature.Recv(); recv != nil && len(fn.Params) > 0 {
		if _, isPtr := recv.Type().(*types.Pointer); isPtr {
			c.assert(not(eq(f.vals[fn.Params[0]].T, "0")))
		}
	}
	w.assumeGlobalInits(c, f, st)
	if ct != nil {
		env := f.specEnv(st, st)
		var reqs []string
		for _, r := range ct.Requires {
			t, err := env.boolTerm(r.E)
			if err != nil {
				c.unsupported("requires %q: %v", r.Text, err)
				continue
			}
			c.assert(t)
			reqs = append(reqs, t)
		}
		// vacuity: the precondition (with type invariants) must be satisfiable
		o := &Obligation{Name: shortFuncKey(fn) + "#cover[requires]", Kind: "cover", Func: funcKey(fn), Guard: "true", Goal: "false", Prefix: len(c.Log), Ctx: c, ExpectSat: true, Text: "precondition satisfiable"}
		c.Obls = append(c.Obls, o)
	}
	c.paramVals = f.params
	c.entryEnv = f.specEnv(st.clone(), st.clone())
	c.entryEnv.locals = false
	if ct != nil && ct.HasAssigns && !ct.NoFrame {
		w.setupFrame(c, f, ct, st)
	}
	f.run(st, "true")
	if len(f.rets) > 0 {
		var gs []string
		var sts []*State
		for _, r := range f.rets {
			gs = append(gs, r.guard)
			sts = append(sts, r.st)
		}
		c.retState = c.mergeStates(gs, sts)
		for i := 0; i < fn.Signature.Results().Len(); i++ {
			last := f.rets[len(f.rets)-1].vals[i]
			out := last.T
			for k := len(f.rets) - 2; k >= 0; k-- {
				out = ite(gs[k], f.rets[k].vals[i].T, out)
			}
			rt := fn.Signature.Results().At(i).Type()
			c.retMerged = append(c.retMerged, Val{T: c.name("ret", out, c.sortOf(rt)), Typ: rt})
		}
	}
	if ct == nil {
		return c
	}
	// postconditions over all return sites
	names := resultNames(ct, fn.Signature)
	type retEnv struct {
		env   *SpecEnv
		guard string
	}
	var envs []retEnv
	for _, r := range f.rets {
		env := f.specEnv(r.st, f.entry)
		env.at = nil
		env.locals = false
		env.goal = true
		for i, v := range r.vals {
			if i < len(names) && names[i] != "" && names[i] != "_" {
				env.vars[names[i]] = v
			}
			if len(r.vals) == 1 {
				env.vars["result"] = v
			}
		}
		envs = append(envs, retEnv{env, r.guard})
	}
	f.curGuard = "true"
	c.curTopBlock = -1
	for k, e := range ct.Ensures {
		key := fmt.Sprint(k)
		if e.Tag != "" {
			key = e.Tag
		}
		if strings.HasSuffix(e.Tag, ",witness") {
			// definitional: introduces an uninterpreted predicate that holds, by
			// definition, of what this function returns for these arguments
			// ("m is an output of f(args)"). Nothing to prove in the body; callers
			// may assume it. Listed among the assumptions in the evidence.
			c.note("witness clause (definitional, not proved): %s", e.Text)
			continue
		}
		var parts []*Obligation
		bad := false
		for ri, re := range envs {
			t, err := re.env.boolTerm(e.E)
			if err != nil {
				c.unsupported("ensures %q: %v", e.Text, err)
				bad = true
				break
			}
			blk := -1
			if rb := f.retBlocks[ri]; rb >= 0 {
				blk = rb
			}
			parts = append(parts, &Obligation{Guard: re.guard, Goal: t, Prefix: len(c.Log), Ctx: c, Blk: blk})
		}
		if bad {
			continue
		}
		o := f.oblige("ensures", key, "(= 0 1)", fn.Pos(), e.Text)
		if o != nil {
			o.Blk = -1
			o.Guard = "true"
			o.Parts = parts
			for _, p := range parts {
				p.Name, p.Kind, p.Func, p.Text, p.Pos = o.Name, o.Kind, o.Func, o.Text, o.Pos
				p.Prefix = len(c.Log)
			}
			o.Prefix = len(c.Log)
		}
	}
	c.emitAxioms()
	// cover: every return reachable (vacuity guard)
	if len(f.rets) > 0 {
		var gs []string
		for _, r := range f.rets {
			gs = append(gs, r.guard)
		}
		o := &Obligation{Name: shortFuncKey(fn) + "#cover[return]", Kind: "cover", Func: funcKey(fn), Guard: or(gs...), Goal: "false", Prefix: len(c.Log), Ctx: c, ExpectSat: true, Text: "some return reachable"}
		c.Obls = append(c.Obls, o)
		o2 := &Obligation{Name: shortFuncKey(fn) + "#consistent[return]", Kind: "cover", Func: funcKey(fn), Guard: or(gs...), Goal: "false", Prefix: len(c.Log), Ctx: c, Consistency: true, Text: "assumptions at the returns (axioms, callee contracts, invariants) are not contradictory"}
		c.Obls = append(c.Obls, o2)
	}
	return c
}

// setupFrame evaluates the assigns clause at entry. Every write the body
// performs (store, in-place append, copy, map update, callee assigns) then
// generates an obligation: its target is fresh (allocated by this call) or
// named in the clause.
func (w *World) setupFrame(c *Ctx, f *Frame, ct *Contract, st *State) {
	env := f.specEnv(st, st)
	env.locals = false
	c.frameAllowed = map[string][]string{}
	c.frameAllowedCond = map[string][][2]string{}
	c.frameAllowedQ = map[string][]havocTarget{}
	c.frameWhole = map[string]bool{}
	env.qprefix = "qo$"
	for _, a := range ct.Assigns {
		if a.Text == "*" {
			return
		}
		c.suppress++
		ts, err := env.targets(a.E)
		if err == nil && a.Cond != nil {
			var ct2 string
			ct2, err = env.boolTerm(a.Cond)
			for i := range ts {
				ts[i].cond = and(ts[i].cond, ct2)
			}
		}
		c.suppress--
		if err != nil {
			c.unsupported("assigns %q: %v", a.Text, err)
			return
		}
		for _, t := range ts {
			if t.key == "" {
				c.frameWhole[t.heap] = true
			} else if t.qbind != "" {
				c.frameAllowedQ[t.heap] = append(c.frameAllowedQ[t.heap], t)
			} else if t.cond == "" {
				c.frameAllowed[t.heap] = append(c.frameAllowed[t.heap], t.key)
			} else {
				c.frameAllowedCond[t.heap] = append(c.frameAllowedCond[t.heap], [2]string{t.key, t.cond})
			}
		}
	}
	c.frameOn = true
}

// frameCheck: a write to heap h at key k must be allowed by the assigns clause.
func (f *Frame) frameCheck(h, k string, pos token.Pos, what string) {
	f.frameCheckCond(h, k, "", pos, what)
}

func (f *Frame) frameCheckCond(h, k, cond string, pos token.Pos, what string) {
	f.frameCheckQ(h, k, cond, "", pos, what)
}

// frameCheckQ: qbind non-empty means the write is to every key described by
// (exists qbind. cond && key == k).
func (f *Frame) frameCheckQ(h, k, cond, qbind string, pos token.Pos, what string) {
	c := f.c
	if !c.frameOn || c.frameWhole[h] || c.suppress > 0 {
		return
	}
	if h == allocHeap || strings.HasPrefix(h, "Iter") || h == "$iter" {
		return
	}
	if strings.HasPrefix(k, "ref$") || strings.HasPrefix(k, "|ref$") {
		return // allocated by this call
	}
	alloc0 := c.heap0[allocHeap]
	if k == "" {
		f.oblige("frame", f.srcKey(pos, what)+" "+h, "false", pos, "write to every "+h+" is not covered by the assigns clause")
		return
	}
	alts := []string{"(>= " + k + " " + alloc0 + ")"}
	for _, a := range c.frameAllowed[h] {
		alts = append(alts, eq(k, a))
	}
	for _, a := range c.frameAllowedCond[h] {
		alts = append(alts, and(a[1], eq(k, a[0])))
	}
	for _, a := range c.frameAllowedQ[h] {
		alts = append(alts, "(exists "+a.qbind+" "+and(a.cond, eq(k, a.key))+")")
	}
	goal := implies(cond, or(alts...))
	if qbind != "" {
		goal = "(forall " + qbind + " " + goal + ")"
	}
	f.oblige("frame", f.srcKey(pos, what)+" "+h, goal, pos, "write to "+h+" outside the assigns clause")
}

// assumeGlobalInits states facts about package-level variables that are never
// written outside package initialisation (checked by the C18 scan).
func (w *World) assumeGlobalInits(c *Ctx, f *Frame, st *State) {
	// Facts about literal initialisers are added lazily by globalFacts when a
	// global is first loaded (globals.go). Here: the proved postconditions of
	// explicit init functions of the same package or of imported in-repo
	// packages, for globals that are never written afterwards.
	if c.Fn == nil || c.Fn.Pkg == nil {
		return
	}
	if strings.HasPrefix(c.Fn.Name(), "init") {
		return
	}
	visible := map[string]bool{c.Fn.Pkg.Pkg.Path(): true}
	for _, imp := range c.Fn.Pkg.Pkg.Imports() {
		visible[imp.Path()] = true
	}
	var keys []string
	for k, ct := range w.Specs.Contracts {
		if ct.Kind == "func" && strings.Contains(k, ".init#") {
			keys = append(keys, k)
		}
	}
	sort.Strings(keys)
	for _, k := range keys {
		ifn := w.FuncByKey[k]
		if ifn == nil || ifn.Pkg == nil || !visible[ifn.Pkg.Pkg.Path()] {
			continue
		}
		ct := w.Specs.Contracts[k]
		env := &SpecEnv{f: f, c: c, vars: map[string]Val{}, bound: map[string]bool{}, cur: st, old: st, pkg: ifn.Pkg, fn: ifn}
		for _, e := range ct.Ensures {
			t, err := env.boolTerm(e.E)
			if err != nil {
				c.note("init postcondition %q not usable here: %v", e.Text, err)
				continue
			}
			c.assert(t)
		}
		c.usedContracts[k] = true
	}
}

func (w *World) contractFuncs() []*ssa.Function {
	var out []*ssa.Function
	for k, ct := range w.Specs.Contracts {
		if ct.Kind != "func" || ct.Trusted {
			continue
		}
		if fn := w.FuncByKey[k]; fn != nil {
			out = append(out, fn)
		}
	}
	sort.Slice(out, func(i, j int) bool { return funcKey(out[i]) < funcKey(out[j]) })
	return out
}

// exprUFs lists the uninterpreted functions an expression mentions.
func (w *World) exprUFs(e Expr, out map[string]bool) {
	switch n := e.(type) {
	case *EBin:
		w.exprUFs(n.L, out)
		w.exprUFs(n.R, out)
	case *EUn:
		w.exprUFs(n.X, out)
	case *ECond:
		w.exprUFs(n.C, out)
		w.exprUFs(n.A, out)
		w.exprUFs(n.B, out)
	case *EQuant:
		w.exprUFs(n.Body, out)
	case *ESel:
		w.exprUFs(n.X, out)
	case *EIndex:
		w.exprUFs(n.X, out)
		w.exprUFs(n.I, out)
	case *ESlice:
		w.exprUFs(n.X, out)
		w.exprUFs(n.Lo, out)
		w.exprUFs(n.Hi, out)
	case *ECall:
		if id, ok := n.Fun.(*EIdent); ok {
			if _, isUF := w.Specs.UFs[id.Name]; isUF {
				out[id.Name] = true
			}
			if id.Name == "mkbytes" || id.Name == "bytes" {
				out["mkbytes"] = true
			}
			if d, isDef := w.Specs.Defs[id.Name]; isDef {
				w.exprUFs(d.Body, out)
			}
		}
		for _, a := range n.Args {
			w.exprUFs(a, out)
		}
	}
}

// emitAxioms adds the definitional axioms of every spec function the
// context uses (each is listed in the evidence as an assumption).
func (c *Ctx) emitAxioms() {
	w := c.W
	emitted := map[string]bool{}
	for changed := true; changed; {
		changed = false
		for _, ax := range w.Specs.Axioms {
			if emitted[ax.Name] {
				continue
			}
			ufs := map[string]bool{}
			w.exprUFs(ax.E, ufs)
			// an axiom defines user-declared spec functions: it is needed only
			// where all of those it mentions occur
			trigger := false
			for u := range ufs {
				if u == "mkbytes" {
					continue
				}
				if !c.usedUF[u] {
					trigger = false
					break
				}
				trigger = true
			}
			if !trigger {
				continue
			}
			emitted[ax.Name] = true
			env := &SpecEnv{c: c, vars: map[string]Val{}, bound: map[string]bool{}, cur: &State{H: map[string]string{}}, old: &State{H: map[string]string{}}}
			if c.Fn != nil {
				f := c.newFrame(c.Fn, false)
				env.f = f
				env.pkg = c.Fn.Pkg
				if env.pkg == nil {
					p := c.Fn
					for p.Parent() != nil {
						p = p.Parent()
					}
					env.pkg = p.Pkg
				}
			}
			before := len(c.Log)
			t, err := env.boolTerm(ax.E)
			extra := append([]string{}, c.Log[before:]...)
			c.Log = c.Log[:before]
			if err != nil {
				c.note("axiom %s not usable in this mode: %v", ax.Name, err)
				continue
			}
			c.Decls = append(c.Decls, extra...)
			c.Decls = append(c.Decls, "(assert "+t+")")
			c.axiomsUsed = append(c.axiomsUsed, ax.Name)
			changed = true
		}
	}
}

// subOffset: the offset of an embedded struct field above its owner (a
// distinct power of two per (struct, field), below the reference stride).
func (w *World) subOffset(fn string) string {
	if w.subOffsets == nil {
		w.subOffsets = map[string]int{}
	}
	k, ok := w.subOffsets[fn]
	if !ok {
		k = len(w.subOffsets)
		w.subOffsets[fn] = k
	}
	if k >= 58 {
		panic("too many embedded struct fields for the reference encoding")
	}
	return new(big.Int).Lsh(big.NewInt(1), uint(k)).String()
}

// embeddedTypes: struct types that occur as a by-value field (or array/slice
// element) of another type. A pointer to any other struct type always
// designates an allocated (top-level) object.
func (w *World) embeddedTypes() map[string]bool {
	if w.embedded != nil {
		return w.embedded
	}
	w.embedded = map[string]bool{}
	seen := map[types.Type]bool{}
	var visit func(t types.Type)
	visit = func(t types.Type) {
		if seen[t] {
			return
		}
		seen[t] = true
		switch u := t.Underlying().(type) {
		case *types.Struct:
			for i := 0; i < u.NumFields(); i++ {
				ft := u.Field(i).Type()
				if isStruct(ft) {
					w.embedded[types.TypeString(ft, nil)] = true
				}
				visit(ft)
			}
		case *types.Pointer:
			visit(u.Elem())
		case *types.Slice:
			if isStruct(u.Elem()) {
				w.embedded[types.TypeString(u.Elem(), nil)] = true
			}
			visit(u.Elem())
		case *types.Array:
			if isStruct(u.Elem()) {
				w.embedded[types.TypeString(u.Elem(), nil)] = true
			}
			visit(u.Elem())
		case *types.Map:
			visit(u.Key())
			visit(u.Elem())
		}
	}
	for _, p := range w.Prog.AllPackages() {
		for _, m := range p.Members {
			if tn, ok := m.(*ssa.Type); ok {
				visit(tn.Type())
			}
		}
	}
	return w.embedded
}

// computeAncestors: for each block of fn, the blocks that can reach it.
func (c *Ctx) computeAncestors(fn *ssa.Function) {
	c.ancestors = map[int]map[int]bool{}
	for _, b := range fn.Blocks {
		seen := map[int]bool{b.Index: true}
		stack := []*ssa.BasicBlock{b}
		for len(stack) > 0 {
			x := stack[len(stack)-1]
			stack = stack[:len(stack)-1]
			for _, p := range x.Preds {
				if !seen[p.Index] {
					seen[p.Index] = true
					stack = append(stack, p)
				}
			}
		}
		c.ancestors[b.Index] = seen
	}
}
