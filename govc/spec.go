package main

// Translation of specification expressions into SMT terms.

import (
	"fmt"
	"go/constant"
	"go/types"
	"math/big"
	"strconv"
	"strings"

	"golang.org/x/tools/go/ssa"
)

type SpecEnv struct {
	f      *Frame
	c      *Ctx
	vars   map[string]Val
	cur    *State
	old    *State
	pkg    *ssa.Package
	fn     *ssa.Function
	at     *ssa.BasicBlock
	locals bool
	bound  map[string]bool
	facts  *[]string // type invariants of heap values read by the formula being translated
	goal   bool      // the formula is to be proved (facts become premises) rather than assumed (facts are conjoined)
	deriveDepth int
	deriving map[string]bool // ghost fields whose derivation is being expanded (no self-recursion)
	qprefix  string          // name prefix of variables bound by a quantified assigns target (default q$)
	// scope: the guards and binders enclosing the sub-formula being
	// translated; a type invariant of a heap read is asserted as a closed
	// axiom under exactly these (scopeElem), never inside the formula itself.
	scope []scopeElem
}

type scopeElem struct {
	guard  string // a condition that holds where the sub-formula is evaluated
	binds  string // or: a binder list "((q$k Int))" ...
	tguard string // ... with the type facts of the bound variables
	vars   []string
	bindList []string // one "(name sort)" per variable
}

// addFact records f (a fact about a value read from the heap) as a closed
// axiom: f under the guards and binders in scope.
func (e *SpecEnv) addFact(f string) { e.addFactT(f, "") }

// addFactT: t is the term the fact is about (used as the instantiation
// pattern when the fact ends up under a binder).
func (e *SpecEnv) addFactT(f, t string) {
	if e.facts == nil || f == "" || f == "true" {
		return
	}
	// bound variables the fact itself speaks about; guards that mention other
	// bound variables cannot be what makes the fact true and are left out
	// (for all k: g(k) ==> f, with f independent of k, is f whenever some k
	// satisfies g)
	var allVars []string
	for _, sc := range e.scope {
		allVars = append(allVars, sc.vars...)
	}
	own := map[string]bool{}
	for _, v := range allVars {
		if containsToken(f, v) {
			own[v] = true
		}
	}
	foreign := func(g string) bool {
		// a guard that is itself quantified cannot be what a type invariant
		// depends on either
		if strings.Contains(g, "(forall ") || strings.Contains(g, "(exists ") {
			return true
		}
		for _, v := range allVars {
			if !own[v] && containsToken(g, v) {
				return true
			}
		}
		return false
	}
	var innerVars []string
	for i := len(e.scope) - 1; i >= 0; i-- {
		sc := e.scope[i]
		if sc.binds == "" {
			if sc.guard != "true" && sc.guard != "" && !foreign(sc.guard) {
				f = implies(sc.guard, f)
			}
			continue
		}
		var bs []string
		all := true
		for _, iv := range innerVars {
			if t != "" && containsToken(t, iv) {
				all = false // the term is only meaningful under an inner binder
			}
		}
		innerVars = append(innerVars, sc.vars...)
		for k, v := range sc.vars {
			if own[v] {
				bs = append(bs, sc.bindList[k])
				if t == "" || !containsToken(t, v) {
					all = false
				}
			}
		}
		if len(bs) == 0 {
			continue
		}
		tg := sc.tguard
		if foreign(tg) {
			tg = "true"
		}
		body := implies(tg, f)
		if all && t != "" && !strings.Contains(t, "(+ ") && !strings.Contains(t, "(- ") && !strings.Contains(t, "(* ") {
			// (arithmetic inside a pattern defeats E-matching)
			body = "(! " + body + " :pattern (" + t + "))"
		}
		f = "(forall (" + strings.Join(bs, " ") + ") " + body + ")"
	}
	*e.facts = append(*e.facts, f)
}

func containsToken(s, tok string) bool {
	for i := 0; ; {
		j := strings.Index(s[i:], tok)
		if j < 0 {
			return false
		}
		k := i + j + len(tok)
		if k >= len(s) || s[k] == ' ' || s[k] == ')' {
			return true
		}
		i = k
	}
}

func (e *SpecEnv) pushGuard(g string) { e.scope = append(e.scope, scopeElem{guard: g}) }
func (e *SpecEnv) popScope()           { e.scope = e.scope[:len(e.scope)-1] }


var untypedInt = types.Typ[types.UntypedInt]

func (f *Frame) specEnv(cur, old *State) *SpecEnv {
	env := &SpecEnv{f: f, c: f.c, vars: map[string]Val{}, bound: map[string]bool{}, cur: cur, old: old, pkg: f.fn.Pkg, fn: f.fn, locals: true}
	if env.pkg == nil && f.fn.Parent() != nil {
		p := f.fn
		for p.Parent() != nil {
			p = p.Parent()
		}
		env.pkg = p.Pkg
	}
	for k, v := range f.params {
		env.vars[k] = v
	}
	return env
}

func (e *SpecEnv) clone() *SpecEnv {
	n := *e
	n.vars = map[string]Val{}
	for k, v := range e.vars {
		n.vars[k] = v
	}
	n.bound = map[string]bool{}
	for k := range e.bound {
		n.bound[k] = true
	}
	return &n
}

func (e *SpecEnv) boolTerm(x Expr) (string, error) {
	top := e.facts == nil
	if top {
		e.facts = &[]string{}
		defer func() { e.facts = nil }()
	}
	v, err := e.term(x)
	if err != nil {
		return "", err
	}
	if !isBoolVal(v) {
		return "", fmt.Errorf("boolean expected: %s", exprString(x))
	}
	if top && len(*e.facts) > 0 {
		// type invariants of what the formula reads: assumed as axioms of the
		// well-typed heap, for formulas to be proved and formulas assumed alike
		for _, f := range dedupStrs(*e.facts) {
			e.c.assertFact(f)
		}
	}
	return v.T, nil
}

func dedupStrs(in []string) []string {
	seen := map[string]bool{}
	var out []string
	for _, s := range in {
		if !seen[s] && s != "true" {
			seen[s] = true
			out = append(out, s)
		}
	}
	return out
}

// readFact records the type invariant of a value read from the heap.
func (e *SpecEnv) readFact(t string, typ types.Type) {
	if e.facts == nil || typ == nil {
		return
	}
	switch typ.Underlying().(type) {
	case *types.Basic, *types.Slice, *types.Pointer:
		if f := e.c.typeFacts(t, typ, ""); f != "true" {
			e.addFactT(f, t)
		}
	}
}

func isBoolVal(v Val) bool {
	if v.Typ == nil {
		return false
	}
	b, ok := v.Typ.Underlying().(*types.Basic)
	return ok && b.Info()&types.IsBoolean != 0
}

func (e *SpecEnv) intTerm(x Expr) (string, error) {
	v, err := e.term(x)
	if err != nil {
		return "", err
	}
	if _, ok := intInfoOf(v.Typ); !ok {
		return "", fmt.Errorf("integer expected: %s", exprString(x))
	}
	if e.c.Mode == ModeBV {
		v = e.coerceBV(v, types.Typ[types.Int64])
	}
	return v.T, nil
}

var boolT = types.Typ[types.Bool]

func isUntyped(v Val) bool {
	return v.Typ == untypedInt
}

// coerceBV renders untyped literals at the width of type t (bv mode).
func (e *SpecEnv) coerceBV(v Val, t types.Type) Val {
	if e.c.Mode != ModeBV {
		return v
	}
	if isUntyped(v) {
		if v.T == "?ite" && len(v.Bind) == 3 {
			a := e.coerceBV(v.Bind[1], t)
			b := e.coerceBV(v.Bind[2], t)
			return Val{T: ite(v.Bind[0].T, a.T, b.T), Typ: t}
		}
		n, _ := new(big.Int).SetString(v.T, 10)
		if n == nil {
			return v
		}
		return Val{T: e.c.numLit(n, t), Typ: t}
	}
	return v
}

func (e *SpecEnv) unifyInts(a, b Val) (Val, Val, types.Type, error) {
	c := e.c
	if c.Mode == ModeInt {
		t := types.Type(mathInt)
		if types.Identical(a.Typ, b.Typ) && a.Typ != untypedInt {
			t = a.Typ
		}
		return a, b, t, nil
	}
	switch {
	case isUntyped(a) && isUntyped(b):
		return e.coerceBV(a, types.Typ[types.Int64]), e.coerceBV(b, types.Typ[types.Int64]), types.Typ[types.Int64], nil
	case isUntyped(a):
		return e.coerceBV(a, b.Typ), b, b.Typ, nil
	case isUntyped(b):
		return a, e.coerceBV(b, a.Typ), a.Typ, nil
	}
	ai, _ := intInfoOf(a.Typ)
	bi, _ := intInfoOf(b.Typ)
	ab, bb := ai.bits, bi.bits
	if ab == 0 {
		ab = 64
	}
	if bb == 0 {
		bb = 64
	}
	if ab != bb {
		return a, b, nil, fmt.Errorf("bv mode: operand widths differ (%s vs %s)", a.Typ, b.Typ)
	}
	return a, b, a.Typ, nil
}

func (e *SpecEnv) lit(n *big.Int) Val {
	if e.c.Mode == ModeBV {
		return Val{T: n.String(), Typ: untypedInt}
	}
	return Val{T: intLit(n), Typ: mathInt}
}

func (e *SpecEnv) term(x Expr) (Val, error) {
	c := e.c
	switch n := x.(type) {
	case *ELit:
		switch n.Kind {
		case "bool":
			return Val{T: n.Val, Typ: boolT}, nil
		case "nil":
			return Val{T: "nil", Typ: types.Typ[types.UntypedNil]}, nil
		case "int":
			v, ok := new(big.Int).SetString(n.Val, 0)
			if !ok {
				return Val{}, fmt.Errorf("bad integer %q", n.Val)
			}
			return e.lit(v), nil
		case "char":
			s, err := strconv.Unquote(n.Val)
			if err != nil || len(s) == 0 {
				return Val{}, fmt.Errorf("bad char %s", n.Val)
			}
			r := []rune(s)
			return e.lit(big.NewInt(int64(r[0]))), nil
		case "string":
			s, err := strconv.Unquote(n.Val)
			if err != nil {
				return Val{}, err
			}
			return Val{T: c.strLit(s), Typ: types.Typ[types.String]}, nil
		}
	case *EIdent:
		return e.ident(n.Name)
	case *EUn:
		v, err := e.term(n.X)
		if err != nil {
			return Val{}, err
		}
		switch n.Op {
		case "!":
			return Val{T: not(v.T), Typ: boolT}, nil
		case "-":
			if isUntyped(v) {
				b, _ := new(big.Int).SetString(v.T, 10)
				return e.lit(new(big.Int).Neg(b)), nil
			}
			if c.Mode == ModeBV {
				return Val{T: "(bvneg " + v.T + ")", Typ: v.Typ}, nil
			}
			return Val{T: "(- " + v.T + ")", Typ: mathInt}, nil
		case "*":
			pt, ok := v.Typ.Underlying().(*types.Pointer)
			if !ok {
				return Val{}, fmt.Errorf("deref of non-pointer")
			}
			return Val{T: c.loadObj(e.cur, v.T, pt.Elem()), Typ: pt.Elem()}, nil
		}
	case *EBin:
		return e.binary(n)
	case *ECond:
		cnd, err := e.boolTerm(n.C)
		if err != nil {
			return Val{}, err
		}
		e.pushGuard(cnd)
		a, err := e.term(n.A)
		e.popScope()
		if err != nil {
			return Val{}, err
		}
		e.pushGuard(not(cnd))
		b, err := e.term(n.B)
		e.popScope()
		if err != nil {
			return Val{}, err
		}
		if _, ok := intInfoOf(a.Typ); ok {
			var t types.Type
			if c.Mode == ModeBV && isUntyped(a) && isUntyped(b) {
				return Val{T: "?ite", Typ: untypedInt, Bind: []Val{{T: cnd}, a, b}}, nil
			}
			a, b, t, err = e.unifyInts(a, b)
			if err != nil {
				return Val{}, err
			}
			return Val{T: ite(cnd, a.T, b.T), Typ: t}, nil
		}
		a, b = e.fixNil(a, b)
		return Val{T: ite(cnd, a.T, b.T), Typ: a.Typ}, nil
	case *EQuant:
		ne := e.clone()
		var binds []string
		var guards []string
		for _, bv := range n.Vars {
			t, err := e.resolveType(bv.Type)
			if err != nil {
				return Val{}, err
			}
			nm := "q$" + bv.Name
			binds = append(binds, "("+nm+" "+c.sortOf(t)+")")
			bvv := Val{T: nm, Typ: t}
			switch t.Underlying().(type) {
			case *types.Array, *types.Struct:
				bvv.NoFacts = true
			}
			ne.vars[bv.Name] = bvv
			ne.bound[bv.Name] = true
			if t != mathInt {
				if _, isInt := intInfoOf(t); !isInt {
					guards = append(guards, c.typeFacts(nm, t, ""))
				}
			}
		}
		var bvars []string
		for _, bv := range n.Vars {
			bvars = append(bvars, "q$"+bv.Name)
		}
		if ne.facts == nil {
			ne.facts = &[]string{}
			defer func() {
				for _, f := range dedupStrs(*ne.facts) {
					c.assertFact(f)
				}
			}()
		}
		ne.scope = append(append([]scopeElem{}, e.scope...), scopeElem{binds: "(" + strings.Join(binds, " ") + ")", tguard: and(guards...), vars: bvars, bindList: binds})
		body, err := ne.boolTerm(n.Body)
		if err != nil {
			return Val{}, err
		}
		k := "exists"
		if n.Forall {
			k = "forall"
			body = implies(and(guards...), body)
			// trigger: the left side of the concluding equality, when it is an
			// application mentioning every bound variable
			if len(n.Pats) > 0 {
				var ps []string
				for _, pe := range n.Pats {
					before := len(c.Log)
					pv, err := ne.term(pe)
					c.Log = c.Log[:before]
					if err != nil {
						return Val{}, fmt.Errorf("pattern: %v", err)
					}
					ps = append(ps, pv.T)
				}
				body = "(! " + body + " :pattern (" + strings.Join(ps, " ") + "))"
			} else if pats := ne.triggerFor(n); len(pats) > 0 {
				body = "(! " + body
				for _, p := range pats {
					body += " :pattern (" + p + ")"
				}
				body += ")"
			}
		} else {
			body = and(append(append([]string{}, guards...), body)...)
			if len(n.Pats) > 0 {
				var ps []string
				for _, pe := range n.Pats {
					before := len(c.Log)
					pv, err := ne.term(pe)
					c.Log = c.Log[:before]
					if err != nil {
						return Val{}, fmt.Errorf("pattern: %v", err)
					}
					ps = append(ps, pv.T)
				}
				body = "(! " + body + " :pattern (" + strings.Join(ps, " ") + "))"
			}
		}
		return Val{T: "(" + k + " (" + strings.Join(binds, " ") + ") " + body + ")", Typ: boolT}, nil
	case *ESel:
		return e.selector(n)
	case *EIndex:
		return e.index(n)
	case *ESlice:
		return e.sliceExpr(n)
	case *ECall:
		return e.call(n)
	}
	return Val{}, fmt.Errorf("unsupported spec expression %s", exprString(x))
}

// fixNil gives an untyped nil the type of the other operand.
func (e *SpecEnv) fixNil(a, b Val) (Val, Val) {
	isNil := func(v Val) bool { return v.Typ == types.Typ[types.UntypedNil] }
	if isNil(a) && !isNil(b) {
		a = Val{T: e.c.zero(b.Typ), Typ: b.Typ}
	}
	if isNil(b) && !isNil(a) {
		b = Val{T: e.c.zero(a.Typ), Typ: a.Typ}
	}
	return a, b
}

func (e *SpecEnv) binary(n *EBin) (Val, error) {
	c := e.c
	switch n.Op {
	case "&&", "||", "==>", "<==>":
		a, err := e.boolTerm(n.L)
		if err != nil {
			return Val{}, err
		}
		// the right operand is evaluated where the left one holds (&&, ==>) or
		// fails (||): facts about what it reads are stated under that guard
		switch n.Op {
		case "&&", "==>":
			e.pushGuard(a)
		case "||":
			e.pushGuard(not(a))
		default:
			e.pushGuard("true")
		}
		b, err := e.boolTerm(n.R)
		e.popScope()
		if err != nil {
			return Val{}, err
		}
		switch n.Op {
		case "&&":
			return Val{T: and(a, b), Typ: boolT}, nil
		case "||":
			return Val{T: or(a, b), Typ: boolT}, nil
		case "==>":
			return Val{T: implies(a, b), Typ: boolT}, nil
		default:
			return Val{T: eq(a, b), Typ: boolT}, nil
		}
	}
	a, err := e.term(n.L)
	if err != nil {
		return Val{}, err
	}
	b, err := e.term(n.R)
	if err != nil {
		return Val{}, err
	}
	_, aInt := intInfoOf(a.Typ)
	_, bInt := intInfoOf(b.Typ)
	if n.Op == "==" || n.Op == "!=" {
		if aInt && bInt {
			a, b, _, err = e.unifyInts(a, b)
			if err != nil {
				return Val{}, err
			}
		} else {
			a, b = e.fixNil(a, b)
			// slice == nil compares the base only
			if _, isSl := a.Typ.Underlying().(*types.Slice); isSl {
				t := eq("(sl.base "+a.T+")", "(sl.base "+b.T+")")
				if b.T != c.zero(b.Typ) && a.T != c.zero(a.Typ) {
					t = eq(a.T, b.T)
				}
				if n.Op == "!=" {
					t = not(t)
				}
				return Val{T: t, Typ: boolT}, nil
			}
		}
		t := eq(a.T, b.T)
		if n.Op == "!=" {
			t = not(t)
		}
		return Val{T: t, Typ: boolT}, nil
	}
	if !aInt || !bInt {
		if n.Op == "+" {
			if bt, ok := a.Typ.Underlying().(*types.Basic); ok && bt.Info()&types.IsString != 0 {
				return Val{T: "(scat " + a.T + " " + b.T + ")", Typ: a.Typ}, nil
			}
		}
		return Val{}, fmt.Errorf("operator %s on non-integers (%v, %v) in %s", n.Op, a.Typ, b.Typ, exprString(n))
	}
	// shifts: right operand independent
	if n.Op == "<<" || n.Op == ">>" {
		if c.Mode == ModeBV {
			if isUntyped(a) {
				a = e.coerceBV(a, types.Typ[types.Int64])
			}
			if isUntyped(b) {
				b = e.coerceBV(b, types.Typ[types.Uint64])
			}
			op := tokenOf(n.Op)
			t, _ := c.arith(op, a, b, nil, nil, a.Typ)
			return Val{T: t, Typ: a.Typ}, nil
		}
		// int mode: mathematical shift by a constant or pow2 UF
		if k, ok := smtIntConst(b.T); ok && k.Sign() >= 0 && k.BitLen() < 16 {
			p := pow2(int(k.Int64())).String()
			if n.Op == "<<" {
				return Val{T: "(* " + a.T + " " + p + ")", Typ: mathInt}, nil
			}
			return Val{T: "(div " + a.T + " " + p + ")", Typ: mathInt}, nil
		}
		// symbolic amount: uninterpreted (keeps the problem linear); typed
		// operands share the function used for the program's own shifts
		if ii, ok := intInfoOf(a.Typ); ok && ii.bits > 0 {
			tm, _ := c.arith(tokenOf(n.Op), a, Val{T: b.T, Typ: types.Typ[types.Uint64]}, nil, nil, a.Typ)
			return Val{T: tm, Typ: a.Typ}, nil
		}
		fn := "shl$math"
		if n.Op == ">>" {
			fn = "shr$math"
		}
		c.declFun(fn, []string{"Int", "Int"}, "Int")
		return Val{T: app(fn, a.T, b.T), Typ: mathInt}, nil
	}
	var t types.Type
	a, b, t, err = e.unifyInts(a, b)
	if err != nil {
		return Val{}, err
	}
	if c.Mode == ModeBV {
		op := tokenOf(n.Op)
		tm, _ := c.arith(op, Val{T: a.T, Typ: t}, Val{T: b.T, Typ: t}, nil, nil, t)
		switch n.Op {
		case "<", "<=", ">", ">=":
			return Val{T: tm, Typ: boolT}, nil
		}
		return Val{T: tm, Typ: t}, nil
	}
	bin := func(o string) string { return "(" + o + " " + a.T + " " + b.T + ")" }
	switch n.Op {
	case "+", "-", "*":
		return Val{T: bin(n.Op), Typ: mathInt}, nil
	case "/":
		return Val{T: c.tdiv(a.T, b.T), Typ: mathInt}, nil
	case "%":
		return Val{T: fmt.Sprintf("(- %s (* %s %s))", a.T, b.T, c.tdiv(a.T, b.T)), Typ: mathInt}, nil
	case "<", "<=", ">", ">=":
		return Val{T: bin(n.Op), Typ: boolT}, nil
	case "&":
		if k, ok := smtIntConst(b.T); ok {
			if tm, ok := c.andConst(a.T, k, intInfo{0, true}); ok {
				return Val{T: tm, Typ: mathInt}, nil
			}
		}
	case "|":
		if k, ok := smtIntConst(b.T); ok && k.Sign() == 0 {
			return a, nil
		}
	}
	// fall back to the program's (typed) operator semantics
	if t != mathInt {
		tm, _ := c.arith(tokenOf(n.Op), Val{T: a.T, Typ: t}, Val{T: b.T, Typ: t}, nil, nil, t)
		return Val{T: tm, Typ: t}, nil
	}
	return Val{}, fmt.Errorf("operator %s needs typed operands in int mode: %s", n.Op, exprString(n))
}

func smtIntConst(s string) (*big.Int, bool) {
	xs := parseSx(s)
	if len(xs) != 1 {
		return nil, false
	}
	return foldSx(xs[0])
}

// foldSx evaluates a closed integer term built from numerals and + - * div mod.
func foldSx(x *sx) (*big.Int, bool) {
	if x.list == nil {
		n, ok := new(big.Int).SetString(x.atom, 10)
		return n, ok
	}
	if len(x.list) < 2 || x.list[0].list != nil {
		return nil, false
	}
	op := x.list[0].atom
	var args []*big.Int
	for _, a := range x.list[1:] {
		v, ok := foldSx(a)
		if !ok {
			return nil, false
		}
		args = append(args, v)
	}
	switch op {
	case "+":
		r := big.NewInt(0)
		for _, a := range args {
			r = new(big.Int).Add(r, a)
		}
		return r, true
	case "*":
		r := big.NewInt(1)
		for _, a := range args {
			r = new(big.Int).Mul(r, a)
		}
		return r, true
	case "-":
		if len(args) == 1 {
			return new(big.Int).Neg(args[0]), true
		}
		r := args[0]
		for _, a := range args[1:] {
			r = new(big.Int).Sub(r, a)
		}
		return r, true
	case "mod":
		if len(args) == 2 && args[1].Sign() > 0 {
			return new(big.Int).Mod(args[0], args[1]), true // Euclidean, as in SMT-LIB
		}
	case "div":
		if len(args) == 2 && args[1].Sign() > 0 {
			q, m := new(big.Int).DivMod(args[0], args[1], new(big.Int))
			_ = m
			return q, true
		}
	}
	return nil, false
}

func (e *SpecEnv) ident(name string) (Val, error) {
	c := e.c
	if e.bound[name] {
		return e.vars[name], nil
	}
	if e.locals && e.f != nil && e.at != nil {
		if v, ok := e.f.lookupLocal(name, e.at, e.cur); ok {
			return v, nil
		}
	}
	if v, ok := e.vars[name]; ok {
		return v, nil
	}
	if e.locals && e.f != nil {
		if v, ok := e.f.lookupLocal(name, e.at, e.cur); ok {
			return v, nil
		}
	}
	if e.pkg != nil {
		if obj := e.pkg.Pkg.Scope().Lookup(name); obj != nil {
			return e.object(obj)
		}
	}
	if obj := types.Universe.Lookup(name); obj != nil {
		if k, ok := obj.(*types.Const); ok {
			return e.constObj(k)
		}
	}
	switch name {
	case "MaxInt64":
		return e.lit(new(big.Int).Sub(pow2(63), big.NewInt(1))), nil
	case "MinInt64":
		return e.lit(new(big.Int).Neg(pow2(63))), nil
	case "MaxUint64":
		return e.lit(new(big.Int).Sub(pow2(64), big.NewInt(1))), nil
	}
	_ = c
	return Val{}, fmt.Errorf("unknown identifier %q", name)
}

func (e *SpecEnv) constObj(k *types.Const) (Val, error) {
	c := e.c
	switch k.Val().Kind() {
	case constant.Int:
		n, _ := new(big.Int).SetString(k.Val().ExactString(), 10)
		if b, ok := k.Type().Underlying().(*types.Basic); ok && b.Info()&types.IsUntyped != 0 {
			return e.lit(n), nil
		}
		return Val{T: c.numLit(n, k.Type()), Typ: k.Type()}, nil
	case constant.String:
		return Val{T: c.strLit(constant.StringVal(k.Val())), Typ: types.Typ[types.String]}, nil
	case constant.Bool:
		if constant.BoolVal(k.Val()) {
			return Val{T: "true", Typ: boolT}, nil
		}
		return Val{T: "false", Typ: boolT}, nil
	}
	return Val{}, fmt.Errorf("unsupported constant %s", k.Name())
}

func (e *SpecEnv) object(obj types.Object) (Val, error) {
	switch o := obj.(type) {
	case *types.Const:
		return e.constObj(o)
	case *types.Var:
		// package-level variable
		pkg := e.c.W.Prog.Package(o.Pkg())
		if pkg == nil {
			return Val{}, fmt.Errorf("package of %s not loaded", o.Name())
		}
		g, ok := pkg.Members[o.Name()].(*ssa.Global)
		if !ok {
			return Val{}, fmt.Errorf("%s is not a global", o.Name())
		}
		p := e.f.globalPtr(g)
		t := g.Type().(*types.Pointer).Elem()
		return Val{T: e.c.loadObj(e.cur, p.T, t), Typ: t}, nil
	case *types.TypeName:
		return Val{T: "", Typ: o.Type(), Fn: nil, Bind: nil, Tup: []Val{}}, nil
	}
	return Val{}, fmt.Errorf("unsupported object %s", obj.Name())
}

func (e *SpecEnv) importedPkg(name string) *types.Package {
	if e.pkg != nil {
		for _, imp := range e.pkg.Pkg.Imports() {
			if imp.Name() == name {
				return imp
			}
		}
	}
	// any loaded package with that name (unambiguous only)
	var found *types.Package
	for _, p := range e.c.W.Prog.AllPackages() {
		if p.Pkg.Name() == name {
			if found != nil && found != p.Pkg {
				return nil
			}
			found = p.Pkg
		}
	}
	return found
}

func (e *SpecEnv) selector(n *ESel) (Val, error) {
	c := e.c
	if id, ok := n.X.(*EIdent); ok {
		if _, shadow := e.vars[id.Name]; !shadow {
			isLocal := false
			if e.locals && e.f != nil {
				_, isLocal = e.f.lookupLocal(id.Name, e.at, e.cur)
			}
			if !isLocal {
				if p := e.importedPkg(id.Name); p != nil {
					if e.pkg == nil || e.pkg.Pkg.Scope().Lookup(id.Name) == nil {
						obj := p.Scope().Lookup(n.Sel)
						if obj == nil {
							return Val{}, fmt.Errorf("%s.%s not found", id.Name, n.Sel)
						}
						return e.object(obj)
					}
				}
			}
		}
	}
	x, err := e.term(n.X)
	if err != nil {
		return Val{}, err
	}
	t := x.Typ
	if pt, ok := t.Underlying().(*types.Pointer); ok {
		st, ok := pt.Elem().Underlying().(*types.Struct)
		if !ok {
			return Val{}, fmt.Errorf("selector on %s", t)
		}
		for i := 0; i < st.NumFields(); i++ {
			if st.Field(i).Name() == n.Sel {
				ft := st.Field(i).Type()
				if isStruct(ft) {
					if nt, ok := ft.(*types.Named); ok && nt.Obj().Pkg() != nil && nt.Obj().Pkg().Path() == "time" {
						// time.Time / time.Duration-like values have value semantics in specifications
						return Val{T: c.loadObj(e.cur, c.subRef(pt.Elem(), i, x.T), ft), Typ: ft}, nil
					}
					// embedded struct object: denote by pointer
					return Val{T: c.subRef(pt.Elem(), i, x.T), Typ: types.NewPointer(ft)}, nil
				}
				h, srt := c.fieldHeap(pt.Elem(), i)
				hv := c.heapGet(e.cur, h, srt)
				rt := "(select " + hv + " " + x.T + ")"
				e.readFact(rt, ft)
				if e.facts != nil {
					switch ft.Underlying().(type) {
					case *types.Pointer, *types.Interface, *types.Map:
						// references stored in a heap version existed when it was made
						if fr, ok := c.frontier[hv]; ok && fr != "" {
							e.addFactT(c.typeFacts(rt, ft, fr), rt)
						}
					}
				}
				return Val{T: rt, Typ: ft}, nil
			}
		}
		return Val{}, fmt.Errorf("no field %s in %s", n.Sel, pt.Elem())
	}
	if st, ok := t.Underlying().(*types.Struct); ok {
		for i := 0; i < st.NumFields(); i++ {
			if st.Field(i).Name() == n.Sel {
				rt := c.structSel(t, i, x.T)
				if !x.NoFacts {
					e.readFact(rt, st.Field(i).Type())
				}
				return Val{T: rt, Typ: st.Field(i).Type(), NoFacts: x.NoFacts}, nil
			}
		}
		return Val{}, fmt.Errorf("no field %s in %s", n.Sel, t)
	}
	return Val{}, fmt.Errorf("selector .%s on %s", n.Sel, t)
}

func (e *SpecEnv) idx(v Val) string {
	if e.c.Mode == ModeBV {
		v = e.coerceBV(v, types.Typ[types.Int])
		return e.c.toIdx(v)
	}
	return v.T
}

func (e *SpecEnv) index(n *EIndex) (Val, error) {
	c := e.c
	x, err := e.term(n.X)
	if err != nil {
		return Val{}, err
	}
	i, err := e.term(n.I)
	if err != nil {
		return Val{}, err
	}
	switch u := x.Typ.Underlying().(type) {
	case *types.Slice:
		h, srt := c.memHeap(u.Elem())
		hv := c.heapGet(e.cur, h, srt)
		rt := "(select (select " + hv + " (sl.base " + x.T + ")) " + c.eidx("(sl.off "+x.T+")", e.idx(i)) + ")"
		e.readFact(rt, u.Elem())
		if e.facts != nil {
			switch u.Elem().Underlying().(type) {
			case *types.Pointer, *types.Interface, *types.Map:
				if fr, ok := c.frontier[hv]; ok && fr != "" {
					e.addFactT(c.typeFacts(rt, u.Elem(), fr), rt)
				}
			}
		}
		return Val{T: rt, Typ: u.Elem()}, nil
	case *types.Array:
		return Val{T: "(select " + x.T + " " + e.idx(i) + ")", Typ: u.Elem(), NoFacts: x.NoFacts}, nil
	case *types.Basic:
		return Val{T: "(sat " + x.T + " " + e.idx(i) + ")", Typ: types.Typ[types.Byte]}, nil
	case *types.Map:
		_, vh := c.mapHeaps(u)
		a, b := e.fixNil(i, Val{Typ: u.Key()})
		_ = b
		return Val{T: "(select (select " + c.heapGet(e.cur, vh, c.heapSort[vh]) + " " + x.T + ") " + a.T + ")", Typ: u.Elem()}, nil
	case *types.Pointer:
		if arr, ok := u.Elem().Underlying().(*types.Array); ok {
			h, srt := c.memHeap(arr.Elem())
			return Val{T: "(select (select " + c.heapGet(e.cur, h, srt) + " " + x.T + ") " + e.idx(i) + ")", Typ: arr.Elem()}, nil
		}
	}
	return Val{}, fmt.Errorf("index on %s", x.Typ)
}

func (e *SpecEnv) sliceExpr(n *ESlice) (Val, error) {
	c := e.c
	x, err := e.term(n.X)
	if err != nil {
		return Val{}, err
	}
	lo := c.idxLit(0)
	if n.Lo != nil {
		v, err := e.term(n.Lo)
		if err != nil {
			return Val{}, err
		}
		lo = e.idx(v)
	}
	switch x.Typ.Underlying().(type) {
	case *types.Slice:
		hi := "(sl.len " + x.T + ")"
		if n.Hi != nil {
			v, err := e.term(n.Hi)
			if err != nil {
				return Val{}, err
			}
			hi = e.idx(v)
		}
		return Val{T: c.mkSlice("(sl.base "+x.T+")", c.iadd("(sl.off "+x.T+")", lo), c.isub(hi, lo), c.isub("(sl.cap "+x.T+")", lo)), Typ: x.Typ}, nil
	case *types.Basic:
		hi := "(slen " + x.T + ")"
		if n.Hi != nil {
			v, err := e.term(n.Hi)
			if err != nil {
				return Val{}, err
			}
			hi = e.idx(v)
		}
		return Val{T: "(ssub " + x.T + " " + lo + " " + hi + ")", Typ: x.Typ}, nil
	}
	return Val{}, fmt.Errorf("slice of %s", x.Typ)
}

func tokenOf(op string) (t tokenT) {
	return tokenMap[op]
}

// ghostKey maps a value to the Int key of ghost heaps.
func (e *SpecEnv) ghostKey(v Val) (string, error) {
	switch v.Typ.Underlying().(type) {
	case *types.Interface:
		return "(if.ref " + v.T + ")", nil
	case *types.Pointer, *types.Map:
		return v.T, nil
	case *types.Slice:
		return "(sl.base " + v.T + ")", nil
	}
	return "", fmt.Errorf("value of type %s cannot key ghost state", v.Typ)
}

func (e *SpecEnv) ghostSort(g *GhostDecl) (string, types.Type, error) {
	switch g.Val {
	case "bool":
		return "Bool", boolT, nil
	case "mathint", "int":
		if e.c.Mode == ModeBV {
			return "(_ BitVec 64)", types.Typ[types.Int64], nil
		}
		return "Int", mathInt, nil
	case "bytes":
		return "Bytes", bytesT, nil
	}
	t, err := e.resolveType(g.Val)
	if err != nil {
		return "", nil, err
	}
	return e.c.sortOf(t), t, nil
}

// bytesT is the pseudo-type of abstract byte sequences (sort Bytes).
var bytesT = types.NewNamed(types.NewTypeName(0, nil, "bytes", nil), types.NewStruct(nil, nil), nil)

func (e *SpecEnv) call(n *ECall) (Val, error) {
	c := e.c
	// conversions to slice types: []byte(x)
	if et, ok := n.Fun.(*EType); ok {
		_ = et
		return Val{}, fmt.Errorf("conversion to %s not supported in specs", et.Text)
	}
	if id, ok := n.Fun.(*EIdent); ok {
		name := id.Name
		switch name {
		case "old":
			if len(n.Args) != 1 {
				return Val{}, fmt.Errorf("old takes one argument")
			}
			ne := e.clone()
			ne.cur = e.old
			ne.locals = false
			return ne.term(n.Args[0])
		case "len", "cap":
			v, err := e.term(n.Args[0])
			if err != nil {
				return Val{}, err
			}
			var t string
			if name == "cap" {
				t = "(sl.cap " + v.T + ")"
			} else {
				switch u := v.Typ.Underlying().(type) {
				case *types.Slice:
					t = "(sl.len " + v.T + ")"
				case *types.Basic:
					t = "(slen " + v.T + ")"
				case *types.Array:
					t = c.idxLit(u.Len())
				case *types.Map:
					h := e.f.mapLenHeap()
					t = ite(eq(v.T, "0"), c.idxLit(0), "(select "+c.heapGet(e.cur, h, c.heapSort[h])+" "+v.T+")")
				default:
					if v.Typ == bytesT {
						c.declFun("blen", []string{"Bytes"}, "Int")
						return Val{T: "(blen " + v.T + ")", Typ: mathInt}, nil
					}
					return Val{}, fmt.Errorf("len of %s", v.Typ)
				}
			}
			if c.Mode == ModeBV {
				return Val{T: t, Typ: types.Typ[types.Int]}, nil
			}
			return Val{T: t, Typ: mathInt}, nil
		case "has":
			m, err := e.term(n.Args[0])
			if err != nil {
				return Val{}, err
			}
			k, err := e.term(n.Args[1])
			if err != nil {
				return Val{}, err
			}
			mt, ok := m.Typ.Underlying().(*types.Map)
			if !ok {
				return Val{}, fmt.Errorf("has on non-map")
			}
			d, _ := c.mapHeaps(mt)
			return Val{T: and(not(eq(m.T, "0")), "(select (select "+c.heapGet(e.cur, d, c.heapSort[d])+" "+m.T+") "+k.T+")"), Typ: boolT}, nil
		case "sortperm", "sortinv":
			v, err := e.term(n.Args[0])
			if err != nil {
				return Val{}, err
			}
			fn := c.lastPi
			if name == "sortinv" {
				fn = c.lastPiInv
			}
			if fn == "" {
				return Val{}, fmt.Errorf("%s: no sort.Slice call precedes this point", name)
			}
			t := types.Type(mathInt)
			if c.Mode == ModeBV {
				t = types.Typ[types.Int]
			}
			return Val{T: "(" + fn + " " + e.idx(v) + ")", Typ: t}, nil
		case "arr":
			v, err := e.term(n.Args[0])
			if err != nil {
				return Val{}, err
			}
			sl, ok := v.Typ.Underlying().(*types.Slice)
			if !ok {
				return Val{}, fmt.Errorf("arr of non-slice")
			}
			h, srt := c.memHeap(sl.Elem())
			return Val{T: "(select " + c.heapGet(e.cur, h, srt) + " (sl.base " + v.T + "))", Typ: types.NewArray(sl.Elem(), 1<<40)}, nil
		case "ix":
			a, err := e.term(n.Args[0])
			if err != nil {
				return Val{}, err
			}
			b, err := e.term(n.Args[1])
			if err != nil {
				return Val{}, err
			}
			t := types.Type(mathInt)
			if c.Mode == ModeBV {
				t = types.Typ[types.Int]
			}
			return Val{T: c.eidx(e.idx(a), e.idx(b)), Typ: t}, nil
		case "itercount":
			// itercount(): how many keys the map range loop at whose head this invariant stands has produced
			if e.at == nil || e.f == nil {
				return Val{}, fmt.Errorf("itercount() is only meaningful in a loop invariant")
			}
			var nx *ssa.Next
			for _, ins := range e.at.Instrs {
				if n2, ok := ins.(*ssa.Next); ok {
					nx = n2
				}
			}
			if nx == nil || nx.IsString {
				return Val{}, fmt.Errorf("itercount(): the loop is not a range over a map")
			}
			it, ok := e.f.vals[nx.Iter]
			if !ok {
				return Val{}, fmt.Errorf("itercount(): iterator not available")
			}
			c.heapSort["IterCount"] = "(Array Int Int)"
			return Val{T: "(select " + c.heapGet(e.cur, "IterCount", "(Array Int Int)") + " " + it.T + ")", Typ: mathInt}, nil
		case "strpos":
			// strpos(): the byte position of the string range loop at whose head this invariant stands
			if e.at == nil || e.f == nil {
				return Val{}, fmt.Errorf("strpos() is only meaningful in a loop invariant")
			}
			var nx *ssa.Next
			for _, ins := range e.at.Instrs {
				if n2, ok := ins.(*ssa.Next); ok {
					nx = n2
				}
			}
			if nx == nil || !nx.IsString {
				return Val{}, fmt.Errorf("strpos(): the loop is not a range over a string")
			}
			it, ok := e.f.vals[nx.Iter]
			if !ok {
				return Val{}, fmt.Errorf("strpos(): iterator not available")
			}
			c.heapSort["IterPos"] = "(Array Int Int)"
			return Val{T: "(select " + c.heapGet(e.cur, "IterPos", "(Array Int Int)") + " " + it.T + ")", Typ: mathInt}, nil
		case "visited":
			// visited(k): key k has been produced by the map range loop at whose head this invariant stands
			if e.at == nil || e.f == nil {
				return Val{}, fmt.Errorf("visited() is only meaningful in a loop invariant")
			}
			var nx *ssa.Next
			for _, ins := range e.at.Instrs {
				if n2, ok := ins.(*ssa.Next); ok {
					nx = n2
				}
			}
			if nx == nil || nx.IsString {
				return Val{}, fmt.Errorf("visited(): the loop is not a range over a map")
			}
			rng, _ := nx.Iter.(*ssa.Range)
			it, ok := e.f.vals[nx.Iter]
			if rng == nil || !ok {
				return Val{}, fmt.Errorf("visited(): iterator not available")
			}
			mt := rng.X.Type().Underlying().(*types.Map)
			kv, err := e.term(n.Args[0])
			if err != nil {
				return Val{}, err
			}
			h := "IterSeen$" + typeKey(mt.Key())
			c.heapSort[h] = "(Array Int (Array " + c.sortOf(mt.Key()) + " Bool))"
			return Val{T: "(select (select " + c.heapGet(e.cur, h, c.heapSort[h]) + " " + it.T + ") " + kv.T + ")", Typ: boolT}, nil
		case "hdrGet":
			m, err := e.term(n.Args[0])
			if err != nil {
				return Val{}, err
			}
			k, err := e.term(n.Args[1])
			if err != nil {
				return Val{}, err
			}
			if _, ok := m.Typ.Underlying().(*types.Map); !ok {
				return Val{}, fmt.Errorf("hdrGet on non-header")
			}
			return Val{T: c.hdrGetTerm(e.cur, m, k.T), Typ: types.Typ[types.String]}, nil
		case "mapget":
			// mapget(m, k): the Go value of m[k] (the zero value when m is nil or k is absent)
			m, err := e.term(n.Args[0])
			if err != nil {
				return Val{}, err
			}
			k, err := e.term(n.Args[1])
			if err != nil {
				return Val{}, err
			}
			mt, ok := m.Typ.Underlying().(*types.Map)
			if !ok {
				return Val{}, fmt.Errorf("mapget on non-map")
			}
			k, _ = e.fixNil(k, Val{Typ: mt.Key()})
			d, vh := c.mapHeaps(mt)
			dom := "(select (select " + c.heapGet(e.cur, d, c.heapSort[d]) + " " + m.T + ") " + k.T + ")"
			raw := "(select (select " + c.heapGet(e.cur, vh, c.heapSort[vh]) + " " + m.T + ") " + k.T + ")"
			return Val{T: ite(and(not(eq(m.T, "0")), dom), raw, c.zero(mt.Elem())), Typ: mt.Elem()}, nil
		case "canonHeader":
			// canonHeader(k): http.CanonicalHeaderKey(k), the same uninterpreted
			// function the http.Header models use
			k, err := e.term(n.Args[0])
			if err != nil {
				return Val{}, err
			}
			c.declFun("canonHeader", []string{"Str"}, "Str")
			t := "(canonHeader " + k.T + ")"
			c.assert("(= (canonHeader " + t + ") " + t + ")")
			return Val{T: t, Typ: types.Typ[types.String]}, nil
		case "iface":
			v, err := e.term(n.Args[0])
			if err != nil {
				return Val{}, err
			}
			return Val{T: c.box(v), Typ: types.NewInterfaceType(nil, nil)}, nil
		case "entry":
			// entry(p): the value parameter p had on entry (heap reads through it use the current state)
			if id, ok := n.Args[0].(*EIdent); ok && e.f != nil {
				if v, ok := e.f.params[id.Name]; ok {
					return v, nil
				}
			}
			return Val{}, fmt.Errorf("entry(x): x must be a parameter")
		case "oldghost":
			// oldghost(g, x): ghost field g in the entry state of the object x denotes now
			gid, ok := n.Args[0].(*EIdent)
			if !ok || len(n.Args) != 2 {
				return Val{}, fmt.Errorf("oldghost(ghostname, x)")
			}
			g, ok := c.W.Specs.Ghosts[gid.Name]
			if !ok {
				return Val{}, fmt.Errorf("oldghost: %s is not a ghost field", gid.Name)
			}
			v, err := e.term(n.Args[1])
			if err != nil {
				return Val{}, err
			}
			ne := e.clone()
			ne.cur = e.old
			return ne.ghostRead(g, v, e.deriveDepth)
		case "ref":
			v, err := e.term(n.Args[0])
			if err != nil {
				return Val{}, err
			}
			k, err := e.ghostKey(v)
			if err != nil {
				return Val{}, err
			}
			return Val{T: k, Typ: types.NewPointer(types.Typ[types.Int8])}, nil
		case "base":
			v, err := e.term(n.Args[0])
			if err != nil {
				return Val{}, err
			}
			return Val{T: "(sl.base " + v.T + ")", Typ: types.NewPointer(types.Typ[types.Int])}, nil
		case "off":
			v, err := e.term(n.Args[0])
			if err != nil {
				return Val{}, err
			}
			return Val{T: "(sl.off " + v.T + ")", Typ: mathInt}, nil
		case "fresh":
			v, err := e.term(n.Args[0])
			if err != nil {
				return Val{}, err
			}
			k, err := e.ghostKey(v)
			if err != nil {
				return Val{}, err
			}
			return Val{T: "(>= " + k + " " + c.allocTerm(e.old) + ")", Typ: boolT}, nil
		case "typeis":
			v, err := e.term(n.Args[0])
			if err != nil {
				return Val{}, err
			}
			tname := exprString(n.Args[1])
			if l, ok := n.Args[1].(*ELit); ok && l.Kind == "string" {
				tname, _ = strconv.Unquote(l.Val)
			}
			tt, err := e.resolveType(tname)
			if err != nil {
				return Val{}, err
			}
			return Val{T: eq("(if.typ "+v.T+")", c.typeID(tt)), Typ: boolT}, nil
		case "bytes":
			v, err := e.term(n.Args[0])
			if err != nil {
				return Val{}, err
			}
			return e.bytesOf(v)
		case "mkbytes":
			if len(n.Args) != 3 {
				return Val{}, fmt.Errorf("mkbytes(arr, off, len)")
			}
			a, err := e.term(n.Args[0])
			if err != nil {
				return Val{}, err
			}
			o, err := e.term(n.Args[1])
			if err != nil {
				return Val{}, err
			}
			l, err := e.term(n.Args[2])
			if err != nil {
				return Val{}, err
			}
			c.declMkbytes()
			return Val{T: "(mkbytes " + a.T + " " + e.idx(o) + " " + e.idx(l) + ")", Typ: bytesT}, nil
		case "unboxed":
			v, err := e.term(n.Args[0])
			if err != nil {
				return Val{}, err
			}
			tname2 := exprString(n.Args[1])
			if l, ok := n.Args[1].(*ELit); ok && l.Kind == "string" {
				tname2, _ = strconv.Unquote(l.Val)
			}
			tt, err := e.resolveType(tname2)
			if err != nil {
				return Val{}, err
			}
			if tt == mathInt {
				tt = types.Typ[types.Int]
			}
			return Val{T: c.unbox(v.T, tt), Typ: tt}, nil
		case "bytesEq", "sameBytes":
			// extensional equality of two byte slices' contents
			a, err := e.term(n.Args[0])
			if err != nil {
				return Val{}, err
			}
			b, err := e.term(n.Args[1])
			if err != nil {
				return Val{}, err
			}
			return Val{T: e.seqEq(a, b), Typ: boolT}, nil
		}
		// integer conversions
		if obj := types.Universe.Lookup(name); obj != nil {
			if tn, ok := obj.(*types.TypeName); ok && len(n.Args) == 1 {
				return e.convertTo(n.Args[0], tn.Type())
			}
		}
		if name == "mathint" && len(n.Args) == 1 {
			return e.convertTo(n.Args[0], mathInt)
		}
		if g, ok := c.W.Specs.Ghosts[name]; ok {
			if len(n.Args) != 1 {
				return Val{}, fmt.Errorf("ghost %s takes one argument", name)
			}
			v, err := e.term(n.Args[0])
			if err != nil {
				return Val{}, err
			}
			return e.ghostRead(g, v, e.deriveDepth)
		}
		if u, ok := c.W.Specs.UFs[name]; ok {
			return e.applyUF(u, n.Args)
		}
		if d, ok := c.W.Specs.Defs[name]; ok {
			if len(d.Params) != len(n.Args) {
				return Val{}, fmt.Errorf("def %s: wrong number of arguments", name)
			}
			ne := e.clone()
			ne.locals = false
			ne.bound = map[string]bool{}
			for i, p := range d.Params {
				v, err := e.term(n.Args[i])
				if err != nil {
					return Val{}, err
				}
				if isUntyped(v) {
					if pt, err := e.resolveType(p.Type); err == nil {
						v = e.coerceBV(v, pt)
					}
				}
				ne.vars[p.Name] = v
				ne.bound[p.Name] = true
			}
			r, err := ne.term(d.Body)
			if err == nil && d.Result != "" {
				if rt, err2 := e.resolveType(d.Result); err2 == nil {
					if isUntyped(r) {
						r = e.coerceBV(r, rt)
					} else if _, isInt := intInfoOf(rt); isInt && (c.Mode == ModeBV || rt != mathInt) {
						r.Typ = rt
					} else if !isInt {
						r.Typ = rt
					}
				}
			}
			return r, err
		}
		// named type conversion or function in package scope
		if e.pkg != nil {
			if obj := e.pkg.Pkg.Scope().Lookup(name); obj != nil {
				switch o := obj.(type) {
				case *types.TypeName:
					if len(n.Args) == 1 {
						return e.convertTo(n.Args[0], o.Type())
					}
				case *types.Func:
					return e.pureCall(e.c.W.Prog.FuncValue(o), nil, n.Args)
				}
			}
		}
		return Val{}, fmt.Errorf("unknown function %q in spec", name)
	}
	if sel, ok := n.Fun.(*ESel); ok {
		// pkg.Func(...) or pkg.Type(...) or x.Method(...)
		if id, ok := sel.X.(*EIdent); ok {
			if _, shadow := e.vars[id.Name]; !shadow {
				if p := e.importedPkg(id.Name); p != nil && (e.pkg == nil || e.pkg.Pkg.Scope().Lookup(id.Name) == nil) {
					obj := p.Scope().Lookup(sel.Sel)
					switch o := obj.(type) {
					case *types.TypeName:
						if len(n.Args) == 1 {
							return e.convertTo(n.Args[0], o.Type())
						}
					case *types.Func:
						return e.pureCall(e.c.W.Prog.FuncValue(o), nil, n.Args)
					}
					if u, ok := c.W.Specs.UFs[id.Name+"."+sel.Sel]; ok {
						return e.applyUF(u, n.Args)
					}
					return Val{}, fmt.Errorf("%s.%s not callable in spec", id.Name, sel.Sel)
				}
			}
		}
		recv, err := e.term(sel.X)
		if err != nil {
			return Val{}, err
		}
		m := e.c.W.Prog.LookupMethod(recv.Typ, recvPkg(recv.Typ), sel.Sel)
		if m == nil {
			if _, isPtr := recv.Typ.Underlying().(*types.Pointer); !isPtr {
				m = e.c.W.Prog.LookupMethod(types.NewPointer(recv.Typ), recvPkg(recv.Typ), sel.Sel)
			}
		}
		if m == nil {
			return Val{}, fmt.Errorf("method %s not found on %s", sel.Sel, recv.Typ)
		}
		return e.pureCall(m, &recv, n.Args)
	}
	return Val{}, fmt.Errorf("unsupported call %s", exprString(n))
}

func recvPkg(t types.Type) *types.Package {
	if p, ok := t.(*types.Pointer); ok {
		t = p.Elem()
	}
	if n, ok := t.(*types.Named); ok {
		return n.Obj().Pkg()
	}
	return nil
}

// pureCall evaluates a side-effect free function inside a specification by
// symbolic inlining (or by its pure contract as an uninterpreted function).
func (e *SpecEnv) pureCall(fn *ssa.Function, recv *Val, argExprs []Expr) (Val, error) {
	c := e.c
	if fn == nil {
		return Val{}, fmt.Errorf("function not found")
	}
	var args []Val
	if recv != nil {
		args = append(args, *recv)
	}
	sig := fn.Signature
	for i, a := range argExprs {
		v, err := e.term(a)
		if err != nil {
			return Val{}, err
		}
		if i < sig.Params().Len() {
			pt := sig.Params().At(i).Type()
			if isUntyped(v) {
				v = e.coerceBV(v, pt)
			}
			v, _ = e.fixNil(v, Val{Typ: pt})
			v.Typ = pt
		}
		args = append(args, v)
	}
	if sig.Results().Len() != 1 {
		return Val{}, fmt.Errorf("spec call of %s: exactly one result required", fn.Name())
	}
	rt := sig.Results().At(0).Type()
	key := funcKey(fn)
	ct := c.W.Specs.Contracts[key]
	if ct != nil && ct.Pure && !ct.Inline {
		// uninterpreted function of the arguments and the heaps it may read
		uf := "pure$" + mangle(strings.TrimPrefix(key, c.W.ModPath+"/go/"))
		var srts, ts []string
		for _, a := range args {
			srts = append(srts, c.sortOf(a.Typ))
			ts = append(ts, a.T)
		}
		reads := c.W.pureReads(fn)
		for _, h := range reads(c) {
			srts = append(srts, c.heapSort[h])
			ts = append(ts, c.heapGet(e.cur, h, c.heapSort[h]))
		}
		c.declFun(uf, srts, c.sortOf(rt))
		return Val{T: app(uf, ts...), Typ: rt}, nil
	}
	if len(fn.Blocks) == 0 {
		return Val{}, fmt.Errorf("spec call of %s: no body and no pure contract", fn.Name())
	}
	c.suppress++
	defer func() { c.suppress-- }()
	saveGuard := e.f.curGuard
	saveUnsup := len(c.Unsupported)
	st := e.cur.clone()
	res := e.f.inline(fn, nil, args, rt, st, 0)
	e.f.curGuard = saveGuard
	if len(c.Unsupported) > saveUnsup {
		msg := c.Unsupported[saveUnsup]
		c.Unsupported = c.Unsupported[:saveUnsup]
		return Val{}, fmt.Errorf("spec call of %s: %s", fn.Name(), msg)
	}
	res.Typ = rt
	return res, nil
}

func (e *SpecEnv) applyUF(u *UFDecl, argExprs []Expr) (Val, error) {
	c := e.c
	if len(u.Params) != len(argExprs) {
		return Val{}, fmt.Errorf("uf %s: wrong number of arguments", u.Name)
	}
	var srts, ts []string
	for i, a := range argExprs {
		v, err := e.term(a)
		if err != nil {
			return Val{}, err
		}
		pt, err := e.resolveType(u.Params[i])
		if err != nil {
			return Val{}, err
		}
		if isUntyped(v) {
			v = e.coerceBV(v, pt)
		}
		v, _ = e.fixNil(v, Val{Typ: pt})
		srts = append(srts, c.sortOf2(pt))
		ts = append(ts, v.T)
	}
	rt, err := e.resolveType(u.Result)
	if err != nil {
		return Val{}, err
	}
	c.declFun("uf$"+u.Name, srts, c.sortOf2(rt))
	c.usedUF[u.Name] = true
	if u.Name == "utf8valid" && !c.utf8Declared && c.Mode == ModeInt {
		// ASCII string literals are valid UTF-8
		c.utf8Declared = true
		c.declFun("strbytes", []string{"Str"}, "Bytes")
		for _, l := range c.asciiLits {
			c.Decls = append(c.Decls, "(assert (uf$utf8valid (strbytes "+l+")))")
		}
	}
	return Val{T: app("uf$"+u.Name, ts...), Typ: rt}, nil
}

func (c *Ctx) sortOf2(t types.Type) string {
	if t == bytesT {
		return "Bytes"
	}
	return c.sortOf(t)
}

func (e *SpecEnv) convertTo(arg Expr, to types.Type) (Val, error) {
	c := e.c
	v, err := e.term(arg)
	if err != nil {
		return Val{}, err
	}
	ti, tok := intInfoOf(to)
	fi, fok := intInfoOf(v.Typ)
	if tok && fok {
		if isUntyped(v) {
			return e.coerceBV(v, to), nil
		}
		if c.Mode == ModeBV {
			return Val{T: c.convInt(v.T, fi, ti, to), Typ: to}, nil
		}
		if to == mathInt {
			return Val{T: v.T, Typ: mathInt}, nil
		}
		// mathematical source: full wrap
		return Val{T: c.wrap(v.T, to), Typ: to}, nil
	}
	if types.Identical(v.Typ.Underlying(), to.Underlying()) {
		v.Typ = to
		return v, nil
	}
	if e.f != nil {
		r := e.f.convert(v, to, e.cur.clone(), 0)
		return r, nil
	}
	return Val{}, fmt.Errorf("conversion %s -> %s", v.Typ, to)
}

// seqEq: a and b have equal length and contents (byte slices or strings).
func (e *SpecEnv) seqEq(a, b Val) string {
	c := e.c
	at := func(v Val, i string) (string, string) {
		switch u := v.Typ.Underlying().(type) {
		case *types.Slice:
			h, srt := c.memHeap(u.Elem())
			return "(select (select " + c.heapGet(e.cur, h, srt) + " (sl.base " + v.T + ")) " + c.eidx("(sl.off "+v.T+")", i) + ")", "(sl.len " + v.T + ")"
		case *types.Array:
			return "(select " + v.T + " " + i + ")", c.idxLit(u.Len())
		}
		return "(sat " + v.T + " " + i + ")", "(slen " + v.T + ")"
	}
	ai, al := at(a, "i!e")
	bi, bl := at(b, "i!e")
	return fmt.Sprintf("(and (= %s %s) (forall ((i!e %s)) (=> %s (= %s %s))))", al, bl, c.idxSort(), and(c.ile(c.idxLit(0), "i!e"), c.ilt("i!e", al)), ai, bi)
}

// resolveType parses a Go type written in a spec.
func (e *SpecEnv) resolveType(s string) (types.Type, error) {
	s = strings.TrimSpace(s)
	switch s {
	case "mathint":
		return mathInt, nil
	case "bytes":
		return bytesT, nil
	case "bytearray":
		return byteArrayT, nil
	}
	if strings.HasPrefix(s, "*") {
		t, err := e.resolveType(s[1:])
		if err != nil {
			return nil, err
		}
		return types.NewPointer(t), nil
	}
	if strings.HasPrefix(s, "[]") {
		t, err := e.resolveType(s[2:])
		if err != nil {
			return nil, err
		}
		return types.NewSlice(t), nil
	}
	if strings.HasPrefix(s, "[") {
		j := strings.Index(s, "]")
		n, err := strconv.Atoi(s[1:j])
		if err != nil {
			return nil, err
		}
		t, err := e.resolveType(s[j+1:])
		if err != nil {
			return nil, err
		}
		return types.NewArray(t, int64(n)), nil
	}
	if obj := types.Universe.Lookup(s); obj != nil {
		if tn, ok := obj.(*types.TypeName); ok {
			if s == "int" && e.c.Mode == ModeInt {
				return mathInt, nil
			}
			return tn.Type(), nil
		}
	}
	if j := strings.LastIndex(s, "."); j >= 0 {
		pn, tn := s[:j], s[j+1:]
		var p *types.Package
		if strings.Contains(pn, "/") {
			if sp := e.c.W.Prog.ImportedPackage(pn); sp != nil {
				p = sp.Pkg
			}
		} else {
			p = e.importedPkg(pn)
		}
		if p == nil {
			return nil, fmt.Errorf("package %q not found for type %s", pn, s)
		}
		obj := p.Scope().Lookup(tn)
		if obj == nil {
			return nil, fmt.Errorf("type %s not found", s)
		}
		return obj.Type(), nil
	}
	if e.pkg != nil {
		if obj := e.pkg.Pkg.Scope().Lookup(s); obj != nil {
			if _, ok := obj.(*types.TypeName); ok {
				return obj.Type(), nil
			}
		}
	}
	return nil, fmt.Errorf("unknown type %q", s)
}

// targets translates an assigns expression into havoc targets.
func (e *SpecEnv) targets(x Expr) ([]havocTarget, error) {
	c := e.c
	switch n := x.(type) {
	case *EQuant:
		// forall k T :: guard ==> target   (a set of locations)
		if !n.Forall {
			return nil, fmt.Errorf("assigns: exists is not a location set")
		}
		ne := e.clone()
		var binds, guards []string
		pfx := "q$"
		if e.qprefix != "" {
			pfx = e.qprefix
		}
		for _, bv := range n.Vars {
			t, err := e.resolveType(bv.Type)
			if err != nil {
				return nil, err
			}
			nm := pfx + bv.Name
			binds = append(binds, "("+nm+" "+c.sortOf(t)+")")
			ne.vars[bv.Name] = Val{T: nm, Typ: t}
			ne.bound[bv.Name] = true
			if t != mathInt {
				if _, isInt := intInfoOf(t); !isInt {
					guards = append(guards, c.typeFacts(nm, t, ""))
				}
			}
		}
		body := n.Body
		ne.facts = &[]string{}
		if b, ok := body.(*EBin); ok && b.Op == "==>" {
			g, err := ne.boolTerm(b.L)
			if err != nil {
				return nil, err
			}
			guards = append(guards, g)
			body = b.R
		}
		ne.facts = &[]string{}
		ts, err := ne.targets(body)
		if err != nil {
			return nil, err
		}
		for i := range ts {
			if ts[i].key == "" {
				continue
			}
			if ts[i].qbind != "" {
				return nil, fmt.Errorf("assigns: nested quantified targets")
			}
			ts[i].qbind = "(" + strings.Join(binds, " ") + ")"
			ts[i].cond = and(append(append([]string{}, guards...), ts[i].cond)...)
			if ts[i].cond == "" {
				ts[i].cond = "true"
			}
		}
		return ts, nil
	case *ESel:
		base, err := e.term(n.X)
		if err != nil {
			return nil, err
		}
		pt, ok := base.Typ.Underlying().(*types.Pointer)
		if !ok {
			return nil, fmt.Errorf("assigns %s: base is not a pointer", exprString(x))
		}
		st, ok := pt.Elem().Underlying().(*types.Struct)
		if !ok {
			return nil, fmt.Errorf("assigns %s: not a struct", exprString(x))
		}
		for i := 0; i < st.NumFields(); i++ {
			if st.Field(i).Name() == n.Sel {
				ft := st.Field(i).Type()
				if isStruct(ft) {
					sub := c.subRef(pt.Elem(), i, base.T)
					return e.objTargets(sub, ft), nil
				}
				h, _ := c.fieldHeap(pt.Elem(), i)
				return []havocTarget{{h, base.T, "", ""}}, nil
			}
		}
		return nil, fmt.Errorf("assigns: no field %s", n.Sel)
	case *EUn:
		if n.Op == "*" {
			p, err := e.term(n.X)
			if err != nil {
				return nil, err
			}
			pt, ok := p.Typ.Underlying().(*types.Pointer)
			if !ok {
				return nil, fmt.Errorf("assigns *: not a pointer")
			}
			return e.objTargets(p.T, pt.Elem()), nil
		}
	case *ECall:
		if id, ok := n.Fun.(*EIdent); ok {
			switch id.Name {
			case "elems":
				s, err := e.term(n.Args[0])
				if err != nil {
					return nil, err
				}
				sl, ok := s.Typ.Underlying().(*types.Slice)
				if !ok {
					return nil, fmt.Errorf("elems of non-slice")
				}
				h, _ := c.memHeap(sl.Elem())
				return []havocTarget{{h, "(sl.base " + s.T + ")", "", ""}}, nil
			case "entries":
				m, err := e.term(n.Args[0])
				if err != nil {
					return nil, err
				}
				mt, ok := m.Typ.Underlying().(*types.Map)
				if !ok {
					return nil, fmt.Errorf("entries of non-map")
				}
				d, v := c.mapHeaps(mt)
				return []havocTarget{{d, m.T, "", ""}, {v, m.T, "", ""}, {e.f.mapLenHeap(), m.T, "", ""}}, nil
			case "all":
				// all(ghostname): the ghost field of every object
				if gid, ok := n.Args[0].(*EIdent); ok {
					if g, ok := c.W.Specs.Ghosts[gid.Name]; ok {
						srt, _, err := e.ghostSort(g)
						if err != nil {
							return nil, err
						}
						return []havocTarget{{c.ghostHeap(gid.Name, srt), "", "", ""}}, nil
					}
				}
				return nil, fmt.Errorf("all(...) takes a ghost field name")
			}
			if g, ok := c.W.Specs.Ghosts[id.Name]; ok {
				v, err := e.term(n.Args[0])
				if err != nil {
					return nil, err
				}
				return e.ghostTargets(g, v, e.deriveDepth)
			}
		}
	}
	return nil, fmt.Errorf("unsupported assigns target %s", exprString(x))
}

func (e *SpecEnv) objTargets(r string, t types.Type) []havocTarget {
	return e.c.objTargets(r, t)
}

func (c *Ctx) objTargets(r string, t types.Type) []havocTarget {
	var out []havocTarget
	switch u := t.Underlying().(type) {
	case *types.Struct:
		for i := 0; i < u.NumFields(); i++ {
			ft := u.Field(i).Type()
			if isStruct(ft) {
				out = append(out, c.objTargets(c.subRef(t, i, r), ft)...)
			} else {
				h, _ := c.fieldHeap(t, i)
				out = append(out, havocTarget{h, r, "", ""})
			}
		}
	case *types.Array:
		h, _ := c.memHeap(u.Elem())
		out = append(out, havocTarget{h, r, "", ""})
	default:
		h, _ := c.cellHeap(t)
		out = append(out, havocTarget{h, r, "", ""})
	}
	return out
}

// byteArrayT is the pseudo-type of unbounded byte arrays (ghost stream data).
var byteArrayT = types.NewArray(types.Typ[types.Byte], 1<<40)

func (c *Ctx) declMkbytes() {
	c.declFun("mkbytes", []string{"(Array " + c.idxSort() + " " + c.sortOf(types.Typ[types.Byte]) + ")", c.idxSort(), c.idxSort()}, "Bytes")
	c.usedUF["mkbytes"] = true
}

// bytesOf abstracts the contents of a byte slice / string / array as a Bytes value.
func (e *SpecEnv) bytesOf(v Val) (Val, error) {
	c := e.c
	switch u := v.Typ.Underlying().(type) {
	case *types.Slice:
		c.declMkbytes()
		h, srt := c.memHeap(u.Elem())
		return Val{T: "(mkbytes (select " + c.heapGet(e.cur, h, srt) + " (sl.base " + v.T + ")) (sl.off " + v.T + ") (sl.len " + v.T + "))", Typ: bytesT}, nil
	case *types.Array:
		c.declMkbytes()
		return Val{T: "(mkbytes " + v.T + " " + c.idxLit(0) + " " + c.idxLit(u.Len()) + ")", Typ: bytesT}, nil
	case *types.Basic:
		c.declFun("strbytes", []string{"Str"}, "Bytes")
		c.usedUF["strbytes"] = true
		return Val{T: "(strbytes " + v.T + ")", Typ: bytesT}, nil
	}
	if v.Typ == bytesT {
		return v, nil
	}
	return Val{}, fmt.Errorf("bytes() of %s", v.Typ)
}

// triggerFor picks an E-matching pattern for a universally quantified spec
// formula of the shape  guard ==> L == R  (or  L == R).
func (e *SpecEnv) triggerFor(n *EQuant) []string {
	body := n.Body
	var out []string
	for {
		b, ok := body.(*EBin)
		if !ok {
			return nil
		}
		if b.Op == "==>" {
			body = b.R
			continue
		}
		if b.Op != "==" {
			return nil
		}
		for _, side := range []Expr{b.L, b.R} {
			switch side.(type) {
			case *EIndex, *ECall:
			default:
				continue
			}
			before := len(e.c.Log)
			v, err := e.term(side)
			e.c.Log = e.c.Log[:before]
			if err != nil || !(strings.HasPrefix(v.T, "(select ") || strings.HasPrefix(v.T, "(uf$") || strings.HasPrefix(v.T, "(sat ")) {
				continue
			}
			all := true
			toks := map[string]bool{}
			for _, tk := range strings.FieldsFunc(v.T, func(r rune) bool { return r == ' ' || r == '(' || r == ')' }) {
				toks[tk] = true
			}
			for _, bv := range n.Vars {
				if !toks["q$"+bv.Name] {
					all = false
				}
			}
			// arithmetic inside a pattern defeats E-matching (the solver reorders
			// sums): only bare-variable index patterns are given explicitly
			if strings.Contains(v.T, "(+ ") || strings.Contains(v.T, "(- ") || strings.Contains(v.T, "(bvadd ") || strings.Contains(v.T, "(bvsub ") || strings.Contains(v.T, "(* ") {
				return nil
			}
			if strings.Contains(v.T, "(ix ") {
				// stable only if the ix arguments are themselves arithmetic-free (checked above)
			}
			if all && !strings.Contains(v.T, "(ite ") && !strings.Contains(v.T, "(let ") {
				out = append(out, v.T)
				break
			}
		}
		return out
	}
}

// deriveType resolves the concrete type a derive declaration is about.
func (e *SpecEnv) deriveType(d *DeriveDecl) (types.Type, *ssa.Package) {
	sp := e.c.W.Prog.ImportedPackage(d.Pkg)
	if sp == nil {
		return nil, nil
	}
	name := strings.TrimPrefix(d.Type, "*")
	obj := sp.Pkg.Scope().Lookup(name)
	if obj == nil {
		return nil, nil
	}
	if strings.HasPrefix(d.Type, "*") {
		return types.NewPointer(obj.Type()), sp
	}
	return obj.Type(), sp
}

// ghostRead reads ghost field g of v, honouring derive declarations: for an
// object of a concrete in-repo type the field is defined by its real state.
func (e *SpecEnv) ghostRead(g *GhostDecl, v Val, depth int) (Val, error) {
	c := e.c
	k, err := e.ghostKey(v)
	if err != nil {
		return Val{}, err
	}
	srt, t, err := e.ghostSort(g)
	if err != nil {
		return Val{}, err
	}
	h := c.ghostHeap(g.Name, srt)
	gt := "(select " + c.heapGet(e.cur, h, c.heapSort[h]) + " " + k + ")"
	if c.Mode == ModeBV && (g.Val == "mathint" || g.Val == "int") {
		// counters kept in ghost state never approach 2^62 (stated assumption)
		c.Decls = append(c.Decls, "(assert (and (bvsle (_ bv0 64) "+gt+") (bvsle "+gt+" (_ bv4611686018427387904 64))))")
	}
	res := gt
	if !e.deriving[g.Name] {
		for _, d := range c.W.Specs.Derives {
			if d.Ghost != g.Name {
				continue
			}
			dt, dpkg := e.deriveType(d)
			if dt == nil {
				continue
			}
			var cond string
			var this Val
			if _, isIface := v.Typ.Underlying().(*types.Interface); isIface {
				cond = eq("(if.typ "+v.T+")", c.typeID(dt))
				this = Val{T: "(if.ref " + v.T + ")", Typ: dt}
			} else if types.Identical(v.Typ, dt) {
				cond = "true"
				this = v
			} else {
				continue
			}
			ne := e.clone()
			ne.vars["this"] = this
			ne.bound["this"] = true
			ne.locals = false
			ne.pkg = dpkg
			ne.deriveDepth = depth + 1
			ne.deriving = map[string]bool{g.Name: true}
			for k2 := range e.deriving {
				ne.deriving[k2] = true
			}
			dv, err := ne.term(d.Body)
			if err != nil {
				return Val{}, fmt.Errorf("derive %s: %v", d.Text, err)
			}
			if g.Val == "mathint" || g.Val == "int" {
				if c.Mode == ModeBV {
					dv = e.coerceBV(dv, types.Typ[types.Int64])
				}
			}
			res = ite(cond, dv.T, res)
		}
	}
	if c.Mode == ModeBV && (g.Val == "mathint" || g.Val == "int") && res != gt {
		c.Decls = append(c.Decls, "(assert (and (bvsle (_ bv0 64) "+res+") (bvsle "+res+" (_ bv4611686018427387904 64))))")
	}
	if e.facts != nil && t != nil && t != mathInt && t != bytesT {
		switch t.Underlying().(type) {
		case *types.Pointer, *types.Interface:
			hv := c.heapGet(e.cur, h, c.heapSort[h])
			if fr, ok := c.frontier[hv]; ok && fr != "" {
				e.addFactT(c.typeFacts(res, t, fr), res)
			}
		}
	}
	if c.Mode == ModeInt && g.Name == "spos" && e.facts != nil && !e.deriving["send"] {
		// reader invariant: the position never passes the end
		if sg, ok := c.W.Specs.Ghosts["send"]; ok {
			if sv, err := e.ghostRead(sg, v, depth); err == nil {
				e.addFact("(<= " + res + " " + sv.T + ")")
			}
		}
	}
	if c.Mode == ModeInt && (g.Val == "mathint" || g.Val == "int") && (g.Name == "accepted" || g.Name == "wrapped" || g.Name == "spos" || g.Name == "send") && e.facts != nil {
		// stated assumption: byte counters of readers/writers stay in [0, 2^62]
		e.addFact("(and (<= 0 " + res + ") (<= " + res + " 4611686018427387904))")
	}
	return Val{T: res, Typ: t}, nil
}

// ghostTargets: the locations an "assigns ghost(x)" clause covers, including
// the real state the ghost field is derived from for in-repo types.
func (e *SpecEnv) ghostTargets(g *GhostDecl, v Val, depth int) ([]havocTarget, error) {
	c := e.c
	k, err := e.ghostKey(v)
	if err != nil {
		return nil, err
	}
	srt, _, err := e.ghostSort(g)
	if err != nil {
		return nil, err
	}
	h := c.ghostHeap(g.Name, srt)
	out := []havocTarget{{h, k, "", ""}}
	if e.deriving[g.Name] {
		return out, nil
	}
	for _, d := range c.W.Specs.Derives {
		if d.Ghost != g.Name {
			continue
		}
		dt, dpkg := e.deriveType(d)
		if dt == nil {
			continue
		}
		var this Val
		cond := ""
		if _, isIface := v.Typ.Underlying().(*types.Interface); isIface {
			this = Val{T: "(if.ref " + v.T + ")", Typ: dt}
			cond = eq("(if.typ "+v.T+")", c.typeID(dt))
		} else if types.Identical(v.Typ, dt) {
			this = v
		} else {
			continue
		}
		ne := e.clone()
		ne.vars["this"] = this
		ne.bound["this"] = true
		ne.locals = false
		ne.pkg = dpkg
		ne.deriveDepth = depth + 1
		ne.deriving = map[string]bool{g.Name: true}
		for k2 := range e.deriving {
			ne.deriving[k2] = true
		}
		ts, err := ne.targets(d.Body)
		if err != nil {
			return nil, err
		}
		for _, te := range d.Touches {
			ts2, err := ne.targets(te)
			if err != nil {
				return nil, err
			}
			ts = append(ts, ts2...)
		}
		for _, t := range ts {
			if cond != "" {
				t.cond = and(cond, t.cond)
			}
			out = append(out, t)
		}
	}
	return out, nil
}
