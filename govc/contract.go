package main

// Contract files: comment-only Go files (//go:build verif) in /repo, and
// *.spec files under /verif/govc/stdlib for assumed contracts. Every line of
// interest starts with "//@". See DESIGN.md §4 for the clause language.

import (
	"fmt"
	"os"
	"path/filepath"
	"sort"
	"strconv"
	"strings"
)

type Clause struct {
	Kind string // requires, ensures, invariant, decreases, assigns, ...
	Text string
	E    Expr
	Es   []Expr // assigns / decreases lists
	File string
	Line int
	Tag  string // optional label: "ensures[name]"
	Cond Expr   // assigns: the target is written only if Cond holds ("assigns x if c")
}

type LoopSpec struct {
	Ordinal    int
	Invariants []*Clause
	Decreases  *Clause
	Unroll     int
	Modifies   []*Clause // extra havoc targets (rarely needed)
}

type Contract struct {
	Key      string // "pkgpath.Func" / "pkgpath.(*T).M" / "pkgpath.F$1"
	Kind     string // func | extern | iface
	Arith    string // "", "int", "bv"
	Params   []string
	Returns  []string
	Requires []*Clause
	Ensures  []*Clause
	Assigns  []*Clause
	HasAssigns bool
	Decreases *Clause
	Loops    map[int]*LoopSpec
	Inline   bool
	Pure     bool
	Trusted  bool   // body not verified (assumed contract); listed in evidence
	PanicsIf []*Clause
	MayPanic bool // explicit panics are allowed behaviour (reported, not an obligation)
	Props    []string // properties this contract serves (for evidence only)
	Hints    []*Clause // "assert" style hints keyed by call ordinal: call[Callee#k]: apply ...
	File     string
	Line     int
	Opaque   map[string]bool
	NoFrame  bool
	Bounds   string // "strict": slice hi <= len instead of cap
	// Asserts: in-body assertions kept in the contract file, anchored at the
	// statement whose source text starts with At:
	//   assert[name] before "text" :: expr
	Asserts []*AssertSpec
}

type AssertSpec struct {
	Tag  string
	At   string
	E    Expr
	Text string
	Line int
}

type UFDecl struct {
	Name   string
	Params []string // spec type names
	Result string
	File   string
}

type DefDecl struct {
	Name   string
	Params []BoundVar
	Result string
	Body   Expr
	File   string
}

type GhostDecl struct {
	Name string
	Key  string // spec type of key
	Val  string // spec type of value
}

// DeriveDecl: for objects of concrete type Type the ghost field Ghost is not
// stored but defined by Body over the object ("this").
type DeriveDecl struct {
	Ghost string
	Type  string // e.g. *CountingWriter
	Pkg   string
	Body  Expr
	Text  string
	Touches []Expr // further locations an update of the ghost field writes
}

type AxiomDecl struct {
	Name string
	E    Expr
	Text string
	File string
}

type LemmaDecl struct {
	Name  string
	Pkg   string
	Arith string
	E     Expr
	Text  string
	File  string
	Props []string
}

type Specs struct {
	Contracts map[string]*Contract
	UFs       map[string]*UFDecl
	Defs      map[string]*DefDecl
	Ghosts    map[string]*GhostDecl
	Derives   []*DeriveDecl
	Axioms    []*AxiomDecl
	Lemmas    []*LemmaDecl
	Files     []string
}

func NewSpecs() *Specs {
	return &Specs{Contracts: map[string]*Contract{}, UFs: map[string]*UFDecl{}, Defs: map[string]*DefDecl{}, Ghosts: map[string]*GhostDecl{}}
}

var clauseKeywords = map[string]bool{
	"func": true, "extern": true, "iface": true, "arith": true, "params": true, "returns": true,
	"requires": true, "ensures": true, "assigns": true, "decreases": true, "loop": true,
	"invariant": true, "unroll": true, "inline": true, "pure": true, "trusted": true,
	"panics_if": true, "may_panic": true, "props": true, "uf": true, "def": true, "ghost": true,
	"axiom": true, "lemma": true, "derive": true, "end": true, "modifies": true, "noframe": true, "bounds": true,
	"package": true, "assert": true,
}

// LoadSpecFile parses one contract file. pkgPath is the import path used to
// qualify "func" keys ("" for stdlib spec files, whose keys are already
// qualified).
func (s *Specs) LoadSpecFile(path string, pkgPath string) error {
	data, err := os.ReadFile(path)
	if err != nil {
		return err
	}
	s.Files = append(s.Files, path)
	type rawLine struct {
		text string
		line int
	}
	var lines []rawLine
	for i, l := range strings.Split(string(data), "\n") {
		t := strings.TrimSpace(l)
		if !strings.HasPrefix(t, "//@") {
			continue
		}
		t = strings.TrimSpace(t[3:])
		if t == "" || strings.HasPrefix(t, "#") {
			continue
		}
		first := t
		if j := strings.IndexAny(t, " \t:["); j >= 0 {
			first = t[:j]
		}
		if !clauseKeywords[first] && len(lines) > 0 {
			lines[len(lines)-1].text += " " + t
			continue
		}
		lines = append(lines, rawLine{t, i + 1})
	}
	var cur *Contract
	var curLoop *LoopSpec
	perr := func(ln int, f string, a ...interface{}) error {
		return fmt.Errorf("%s:%d: %s", path, ln, fmt.Sprintf(f, a...))
	}
	mkClause := func(kind, text string, ln int) (*Clause, error) {
		c := &Clause{Kind: kind, Text: text, File: path, Line: ln}
		e, err := ParseExpr(text)
		if err != nil {
			return nil, perr(ln, "%s: %v", kind, err)
		}
		c.E = e
		return c, nil
	}
	for _, rl := range lines {
		t := rl.text
		kw := t
		rest := ""
		if j := strings.IndexAny(t, " \t"); j >= 0 {
			kw = t[:j]
			rest = strings.TrimSpace(t[j:])
		}
		tag := ""
		if j := strings.Index(kw, "["); j >= 0 && strings.HasSuffix(kw, "]") {
			tag = kw[j+1 : len(kw)-1]
			kw = kw[:j]
		}
		kw = strings.TrimSuffix(kw, ":")
		switch kw {
		case "package":
			pkgPath = strings.TrimSpace(rest)
		case "func", "extern", "iface":
			key := rest
			if kw == "func" && pkgPath != "" {
				key = pkgPath + "." + rest
			}
			cur = &Contract{Key: key, Kind: kw, Loops: map[int]*LoopSpec{}, File: path, Line: rl.line}
			if kw != "func" {
				cur.Trusted = true
			}
			if _, dup := s.Contracts[key]; dup {
				return perr(rl.line, "duplicate contract for %s", key)
			}
			s.Contracts[key] = cur
			curLoop = nil
		case "end":
			cur, curLoop = nil, nil
		case "uf":
			// uf name(T1, T2) T
			lp := strings.Index(rest, "(")
			rp := strings.LastIndex(rest, ")")
			if lp < 0 || rp < lp {
				return perr(rl.line, "bad uf")
			}
			u := &UFDecl{Name: strings.TrimSpace(rest[:lp]), Result: strings.TrimSpace(rest[rp+1:]), File: path}
			for _, p := range splitTop(rest[lp+1:rp], ',') {
				p = strings.TrimSpace(p)
				if p != "" {
					u.Params = append(u.Params, p)
				}
			}
			s.UFs[u.Name] = u
		case "ghost":
			// ghost name(KeyType) ValType
			lp := strings.Index(rest, "(")
			rp := strings.LastIndex(rest, ")")
			if lp < 0 || rp < lp {
				return perr(rl.line, "bad ghost")
			}
			g := &GhostDecl{Name: strings.TrimSpace(rest[:lp]), Key: strings.TrimSpace(rest[lp+1 : rp]), Val: strings.TrimSpace(rest[rp+1:])}
			s.Ghosts[g.Name] = g
		case "derive":
			// derive ghost(*T) = expr over "this"
			lp := strings.Index(rest, "(")
			rp := strings.Index(rest, ")")
			eqi := strings.Index(rest, "=")
			if lp < 0 || rp < lp || eqi < rp {
				return perr(rl.line, "bad derive")
			}
			bodyText := rest[eqi+1:]
			var touches []Expr
			if ti := strings.Index(bodyText, "; touches"); ti >= 0 {
				for _, part := range splitTop(bodyText[ti+len("; touches"):], ',') {
					te, err := ParseExpr(part)
					if err != nil {
						return perr(rl.line, "derive touches: %v", err)
					}
					touches = append(touches, te)
				}
				bodyText = bodyText[:ti]
			}
			e, err := ParseExpr(bodyText)
			if err != nil {
				return perr(rl.line, "derive: %v", err)
			}
			s.Derives = append(s.Derives, &DeriveDecl{Ghost: strings.TrimSpace(rest[:lp]), Type: strings.TrimSpace(rest[lp+1 : rp]), Pkg: pkgPath, Body: e, Text: rest, Touches: touches})
		case "def":
			// def name(a T, b T) T = expr
			eq := strings.Index(rest, "=")
			for eq >= 0 && eq+1 < len(rest) && (rest[eq+1] == '=' || (eq > 0 && strings.ContainsRune("=!<>", rune(rest[eq-1])))) {
				n := strings.Index(rest[eq+2:], "=")
				if n < 0 {
					eq = -1
					break
				}
				eq = eq + 2 + n
			}
			if eq < 0 {
				return perr(rl.line, "bad def")
			}
			head := rest[:eq]
			lp := strings.Index(head, "(")
			rp := strings.LastIndex(head, ")")
			d := &DefDecl{Name: strings.TrimSpace(head[:lp]), Result: strings.TrimSpace(head[rp+1:]), File: path}
			for _, p := range splitTop(head[lp+1:rp], ',') {
				p = strings.TrimSpace(p)
				if p == "" {
					continue
				}
				j := strings.IndexAny(p, " \t")
				if j < 0 {
					return perr(rl.line, "bad def param %q", p)
				}
				d.Params = append(d.Params, BoundVar{Name: p[:j], Type: strings.TrimSpace(p[j:])})
			}
			e, err := ParseExpr(rest[eq+1:])
			if err != nil {
				return perr(rl.line, "def %s: %v", d.Name, err)
			}
			d.Body = e
			s.Defs[d.Name] = d
		case "axiom":
			j := strings.Index(rest, ":")
			if j < 0 {
				return perr(rl.line, "bad axiom")
			}
			e, err := ParseExpr(rest[j+1:])
			if err != nil {
				return perr(rl.line, "axiom: %v", err)
			}
			s.Axioms = append(s.Axioms, &AxiomDecl{Name: strings.TrimSpace(rest[:j]), E: e, Text: rest[j+1:], File: path})
		case "lemma":
			j := strings.Index(rest, ":")
			if j < 0 {
				return perr(rl.line, "bad lemma")
			}
			e, err := ParseExpr(rest[j+1:])
			if err != nil {
				return perr(rl.line, "lemma: %v", err)
			}
			name := strings.TrimSpace(rest[:j])
			arith := ""
			if f := strings.Fields(name); len(f) == 2 {
				name, arith = f[0], f[1]
			}
			s.Lemmas = append(s.Lemmas, &LemmaDecl{Name: name, Pkg: pkgPath, Arith: arith, E: e, Text: rest[j+1:], File: path})
		default:
			if cur == nil {
				return perr(rl.line, "clause %q outside a func block", kw)
			}
			switch kw {
			case "arith":
				cur.Arith = rest
			case "bounds":
				cur.Bounds = rest
			case "params":
				cur.Params = parseNameList(rest)
			case "returns":
				cur.Returns = parseNameList(rest)
			case "inline":
				cur.Inline = true
			case "pure":
				cur.Pure = true
			case "trusted":
				cur.Trusted = true
			case "noframe":
				cur.NoFrame = true
			case "may_panic":
				cur.MayPanic = true
			case "props":
				cur.Props = strings.Fields(strings.ReplaceAll(rest, ",", " "))
			case "assert":
				// assert[name] before "statement text" :: expr
				r := strings.TrimSpace(rest)
				if !strings.HasPrefix(r, "before ") {
					return perr(rl.line, "assert: expected 'before \"text\" :: expr'")
				}
				r = strings.TrimSpace(strings.TrimPrefix(r, "before "))
				if !strings.HasPrefix(r, "\"") {
					return perr(rl.line, "assert: quoted statement text expected")
				}
				end := strings.Index(r[1:], "\" ::")
				if end < 0 {
					return perr(rl.line, "assert: missing '\" ::'")
				}
				at := r[1 : 1+end]
				etxt := strings.TrimSpace(r[1+end+4:])
				e, err := ParseExpr(etxt)
				if err != nil {
					return perr(rl.line, "assert: %v", err)
				}
				cur.Asserts = append(cur.Asserts, &AssertSpec{Tag: tag, At: at, E: e, Text: etxt, Line: rl.line})
			case "requires", "ensures", "panics_if":
				c, err := mkClause(kw, rest, rl.line)
				if err != nil {
					return err
				}
				c.Tag = tag
				switch kw {
				case "requires":
					cur.Requires = append(cur.Requires, c)
				case "ensures":
					cur.Ensures = append(cur.Ensures, c)
				case "panics_if":
					cur.PanicsIf = append(cur.PanicsIf, c)
				}
			case "assigns", "modifies":
				cur.HasAssigns = true
				if strings.TrimSpace(rest) == "nothing" {
					break
				}
				for _, part := range splitTop(rest, ',') {
					part = strings.TrimSpace(part)
					if part == "" {
						continue
					}
					c := &Clause{Kind: "assigns", Text: part, File: path, Line: rl.line}
					if part != "*" {
						tgt := part
						if k := strings.Index(part, " if "); k >= 0 {
							ce, err := ParseExpr(part[k+4:])
							if err != nil {
								return perr(rl.line, "assigns condition: %v", err)
							}
							c.Cond = ce
							tgt = part[:k]
						}
						e, err := ParseExpr(tgt)
						if err != nil {
							return perr(rl.line, "assigns: %v", err)
						}
						c.E = e
					}
					if kw == "modifies" && curLoop != nil {
						curLoop.Modifies = append(curLoop.Modifies, c)
					} else {
						cur.Assigns = append(cur.Assigns, c)
					}
				}
			case "loop":
				n, err := strconv.Atoi(strings.TrimSuffix(strings.TrimSpace(rest), ":"))
				if err != nil {
					return perr(rl.line, "bad loop ordinal %q", rest)
				}
				curLoop = &LoopSpec{Ordinal: n}
				cur.Loops[n] = curLoop
			case "invariant":
				if curLoop == nil {
					return perr(rl.line, "invariant outside loop")
				}
				c, err := mkClause(kw, rest, rl.line)
				if err != nil {
					return err
				}
				c.Tag = tag
				curLoop.Invariants = append(curLoop.Invariants, c)
			case "unroll":
				if curLoop == nil {
					return perr(rl.line, "unroll outside loop")
				}
				n, _ := strconv.Atoi(rest)
				curLoop.Unroll = n
			case "decreases":
				c, err := mkClause(kw, rest, rl.line)
				if err != nil {
					return err
				}
				if curLoop != nil {
					curLoop.Decreases = c
				} else {
					cur.Decreases = c
				}
			default:
				return perr(rl.line, "unknown clause %q", kw)
			}
		}
	}
	return nil
}

func parseNameList(s string) []string {
	s = strings.TrimSpace(s)
	s = strings.TrimPrefix(s, "(")
	s = strings.TrimSuffix(s, ")")
	var out []string
	for _, p := range strings.Split(s, ",") {
		p = strings.TrimSpace(p)
		if p != "" {
			out = append(out, p)
		}
	}
	return out
}

// splitTop splits s at sep occurrences that are not nested in brackets.
func splitTop(s string, sep byte) []string {
	var out []string
	depth := 0
	start := 0
	inStr := false
	for i := 0; i < len(s); i++ {
		c := s[i]
		if inStr {
			if c == '\\' {
				i++
			} else if c == '"' {
				inStr = false
			}
			continue
		}
		switch c {
		case '"':
			inStr = true
		case '(', '[', '{':
			depth++
		case ')', ']', '}':
			depth--
		default:
			if c == sep && depth == 0 {
				out = append(out, s[start:i])
				start = i + 1
			}
		}
	}
	out = append(out, s[start:])
	return out
}

// LoadRepoSpecs loads every zz_contracts_verif.go under root/go.
func (s *Specs) LoadRepoSpecs(root string, modPath string) error {
	var files []string
	filepath.Walk(filepath.Join(root, "go"), func(p string, info os.FileInfo, err error) error {
		if err == nil && !info.IsDir() && strings.HasSuffix(p, "_contracts_verif.go") {
			files = append(files, p)
		}
		return nil
	})
	sort.Strings(files)
	for _, f := range files {
		rel, _ := filepath.Rel(root, filepath.Dir(f))
		pkgPath := modPath + "/" + filepath.ToSlash(rel)
		if err := s.LoadSpecFile(f, pkgPath); err != nil {
			return err
		}
	}
	return nil
}

func (s *Specs) LoadDirSpecs(dir string) error {
	ents, err := os.ReadDir(dir)
	if err != nil {
		return err
	}
	for _, e := range ents {
		if strings.HasSuffix(e.Name(), ".spec") {
			if err := s.LoadSpecFile(filepath.Join(dir, e.Name()), ""); err != nil {
				return err
			}
		}
	}
	return nil
}
