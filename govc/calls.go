package main

// Calls: builtins, contracts (in-repo, assumed, interface), inlining.

import (
	"fmt"
	"go/token"
	"go/types"
	"strings"

	"golang.org/x/tools/go/ssa"
)

func funcKey(fn *ssa.Function) string {
	if fn == nil {
		return "?"
	}
	if fn.Parent() != nil {
		p := fn.Parent()
		return funcKey(p) + strings.TrimPrefix(fn.Name(), p.Name())
	}
	pkg := ""
	if fn.Pkg != nil {
		pkg = fn.Pkg.Pkg.Path()
	} else if fn.Object() != nil && fn.Object().Pkg() != nil {
		pkg = fn.Object().Pkg().Path()
	}
	if recv := fn.Signature.Recv(); recv != nil {
		rt := recv.Type()
		ptr := ""
		if p, ok := rt.(*types.Pointer); ok {
			ptr = "*"
			rt = p.Elem()
		}
		name := "?"
		if n, ok := rt.(*types.Named); ok {
			name = n.Obj().Name()
			if n.Obj().Pkg() != nil {
				pkg = n.Obj().Pkg().Path()
			}
		}
		return pkg + ".(" + ptr + name + ")." + fn.Name()
	}
	return pkg + "." + fn.Name()
}

func shortFuncKey(fn *ssa.Function) string {
	return strings.TrimPrefix(funcKey(fn), "github.com/WICG/webpackage/go/")
}

func ifaceMethodKey(m *types.Func) string {
	// FullName: "(io.Writer).Write"
	s := m.FullName()
	s = strings.Replace(s, "(", "", 1)
	s = strings.Replace(s, ")", "", 1)
	return s
}

func (f *Frame) call(x ssa.CallInstruction, st *State) Val {
	c := f.c
	cc := x.Common()
	var rt types.Type = types.NewTuple()
	if v := x.Value(); v != nil {
		rt = v.Type()
	}
	pos := x.Pos()
	if b, ok := cc.Value.(*ssa.Builtin); ok {
		return f.builtin(b, cc, rt, st, pos)
	}
	var args []Val
	if cc.IsInvoke() {
		recv := f.val(cc.Value)
		args = append(args, recv)
		for _, a := range cc.Args {
			args = append(args, f.val(a))
		}
		// static dispatch when the dynamic type is known
		if mi, ok := cc.Value.(*ssa.MakeInterface); ok {
			if m := c.W.Prog.LookupMethod(mi.X.Type(), cc.Method.Pkg(), cc.Method.Name()); m != nil {
				args[0] = f.val(mi.X)
				return f.callFunc(m, nil, args, rt, st, pos)
			}
		}
		key := ifaceMethodKey(cc.Method)
		ct := c.W.Specs.Contracts[key]
		if ct == nil {
			c.note("no interface contract for %s: call havocs everything", key)
			return f.havocCall(key, rt, st)
		}
		f.oblige("nil", f.srcKey(pos, "invoke "+cc.Method.Name()), not(eq("(if.typ "+recv.T+")", "0")), pos, "method call on nil interface")
		return f.applyContract(ct, nil, cc.Signature(), args, rt, st, pos)
	}
	for _, a := range cc.Args {
		args = append(args, f.val(a))
	}
	if fn := cc.StaticCallee(); fn != nil {
		var binds []Val
		if mc, ok := cc.Value.(*ssa.MakeClosure); ok {
			binds = f.val(mc).Bind
		}
		return f.callFunc(fn, binds, args, rt, st, pos)
	}
	fv := f.val(cc.Value)
	if fv.Fn != nil {
		return f.callFunc(fv.Fn, fv.Bind, args, rt, st, pos)
	}
	// a value of a named function type may carry an assumed contract
	// ("iface <pkgpath>.<TypeName>.call")
	var tobj *types.TypeName
	switch nt := cc.Value.Type().(type) {
	case *types.Named:
		tobj = nt.Obj()
	case *types.Alias:
		tobj = nt.Obj()
	}
	if nt := tobj; nt != nil && nt.Pkg() != nil {
		key := nt.Pkg().Path() + "." + nt.Name() + ".call"
		if ct := c.W.Specs.Contracts[key]; ct != nil {
			f.oblige("nil", f.srcKey(pos, "call "+nt.Name()), not(eq(fv.T, "0")), pos, "call of a nil function value")
			return f.applyContract(ct, nil, cc.Signature(), args, rt, st, pos)
		}
	}
	c.note("call through unknown function value in %s: havoc", f.fn.Name())
	return f.havocCall("funcvalue", rt, st)
}

func (c *Ctx) note(f string, a ...interface{}) {
	s := fmt.Sprintf(f, a...)
	for _, n := range c.Notes {
		if n == s {
			return
		}
	}
	c.Notes = append(c.Notes, s)
}

func (f *Frame) havocCall(key string, rt types.Type, st *State) Val {
	f.frameCheck("*", "", token.NoPos, "call "+key)
	f.applyHavoc(st, nil, true, f.curGuard)
	return f.freshVal("res$"+mangle(key), rt, st, f.curGuard)
}

func (f *Frame) callFunc(fn *ssa.Function, binds []Val, args []Val, rt types.Type, st *State, pos token.Pos) Val {
	c := f.c
	key := funcKey(fn)
	ct := c.W.Specs.Contracts[key]
	if ct != nil && !ct.Inline {
		if fn.Signature.Recv() != nil && len(args) > 0 {
			if _, isPtr := fn.Signature.Recv().Type().(*types.Pointer); isPtr && !f.nonNil(args[0]) && args[0].T != "" {
				f.oblige("nil", f.srcKey(pos, "recv "+fn.Name()), not(eq(args[0].T, "0")), pos, "nil receiver")
			}
		}
		if len(binds) > 0 {
			args = append(append([]Val{}, binds...), args...)
		}
		return f.applyContract(ct, fn, fn.Signature, args, rt, st, pos)
	}
	if m := c.W.builtinModel(key); m != nil {
		return m(f, args, rt, st, pos)
	}
	inRepo := fn.Pkg != nil && strings.HasPrefix(fn.Pkg.Pkg.Path(), c.W.ModPath)
	if (inRepo || (ct != nil && ct.Inline)) && len(fn.Blocks) > 0 && f.depth < 6 && (ct != nil && ct.Inline || c.W.inlinable(fn)) && !f.onStack(fn) {
		return f.inline(fn, binds, args, rt, st, pos)
	}
	if inRepo {
		c.note("callee %s has no contract and is not inlinable: call havocs everything", shortFuncKey(fn))
	} else {
		c.note("external callee %s has no assumed contract: call havocs everything", key)
	}
	return f.havocCall(key, rt, st)
}

var frameStack []*ssa.Function

func (f *Frame) onStack(fn *ssa.Function) bool {
	for _, g := range frameStack {
		if g == fn {
			return true
		}
	}
	return fn == f.c.Fn
}

func (w *World) inlinable(fn *ssa.Function) bool {
	n := 0
	for _, b := range fn.Blocks {
		n += len(b.Instrs)
		for _, s := range b.Succs {
			if isBackEdge(b, s) {
				return false
			}
		}
		for _, ins := range b.Instrs {
			switch ins.(type) {
			case *ssa.Defer, *ssa.Go, *ssa.Select:
				return false
			}
		}
	}
	return n <= 60
}

func (f *Frame) inline(fn *ssa.Function, binds []Val, args []Val, rt types.Type, st *State, pos token.Pos) Val {
	c := f.c
	sub := c.newFrame(fn, false)
	sub.depth = f.depth + 1
	for i, p := range fn.Params {
		if i < len(args) {
			sub.vals[p] = args[i]
			sub.params[p.Name()] = args[i]
		}
	}
	for i, fv := range fn.FreeVars {
		if i < len(binds) {
			sub.vals[fv] = binds[i]
		}
	}
	c.usedContracts["inlined:"+shortFuncKey(fn)] = true
	frameStack = append(frameStack, fn)
	sub.run(st.clone(), f.curGuard)
	frameStack = frameStack[:len(frameStack)-1]
	if len(sub.rets) == 0 {
		// never returns (panics / unsupported)
		f.curGuard = "false"
		return f.freshVal("noreturn", rt, st, "false")
	}
	var guards []string
	var sts []*State
	for _, r := range sub.rets {
		guards = append(guards, r.guard)
		sts = append(sts, r.st)
	}
	merged := c.mergeStates(guards, sts)
	st.H = merged.H
	g := c.fresh("reach$after." + fn.Name())
	c.declConst(g, "Bool")
	c.assert(eq(q(g), or(guards...)))
	f.curGuard = q(g)
	nres := fn.Signature.Results().Len()
	mergeRes := func(i int) Val {
		last := sub.rets[len(sub.rets)-1].vals[i]
		out := last
		for k := len(sub.rets) - 2; k >= 0; k-- {
			v := sub.rets[k].vals[i]
			if v.T != out.T {
				out = Val{T: ite(guards[k], v.T, out.T), Typ: v.Typ}
			}
		}
		if out.T != "" {
			out.T = c.name(fn.Name()+".res", out.T, c.sortOf(out.Typ))
		}
		out.Typ = fn.Signature.Results().At(i).Type()
		return out
	}
	switch nres {
	case 0:
		return Val{Typ: rt}
	case 1:
		return mergeRes(0)
	}
	var tup []Val
	for i := 0; i < nres; i++ {
		tup = append(tup, mergeRes(i))
	}
	return Val{Typ: rt, Tup: tup}
}

// applyContract uses contract ct for a call with the given arguments.
func (f *Frame) applyContract(ct *Contract, fn *ssa.Function, sig *types.Signature, args []Val, rt types.Type, st *State, pos token.Pos) Val {
	c := f.c
	c.usedContracts[ct.Key] = true
	env := f.calleeEnv(ct, fn, sig, args)
	env.cur, env.old = st, st
	ord := f.callOrd[ct.Key]
	f.callOrd[ct.Key] = ord + 1
	short := strings.TrimPrefix(ct.Key, c.W.ModPath+"/go/")
	for j, r := range ct.Requires {
		env.goal = true
		t, err := env.boolTerm(r.E)
		env.goal = false
		if err != nil {
			c.unsupported("requires of %s: %v", ct.Key, err)
			continue
		}
		tag := fmt.Sprint(j)
		if r.Tag != "" {
			tag = r.Tag
		}
		f.oblige("requires", fmt.Sprintf("%s#%d][%s", short, ord, tag), t, pos, r.Text)
	}
	// termination of recursion: the callee's variant is strictly below ours
	if fn != nil && ct.Decreases != nil && f.top && f.contract != nil && f.contract.Decreases != nil && c.W.reaches(fn, c.Fn) {
		env.goal = true
		cv, err1 := env.intTerm(ct.Decreases.E)
		env.goal = false
		me := f.specEnv(f.entry, f.entry)
		me.locals = false
		mv, err2 := me.intTerm(f.contract.Decreases.E)
		if err1 == nil && err2 == nil {
			f.oblige("decreases", fmt.Sprintf("call %s#%d", short, ord), and(c.ile(c.idxLit(0), cv), c.ilt(cv, mv)), pos, "recursion variant: "+ct.Decreases.Text)
		} else {
			c.unsupported("recursion variant of %s: %v %v", short, err1, err2)
		}
	}
	pre := st.clone()
	// frame
	if ct.HasAssigns || ct.Kind != "func" || ct.Pure {
		var targets []havocTarget
		all := false
		for _, a := range ct.Assigns {
			if a.Text == "*" {
				all = true
				break
			}
			ts, err := env.targets(a.E)
			if err != nil {
				c.unsupported("assigns of %s: %v", ct.Key, err)
				all = true
				break
			}
			if a.Cond != nil {
				ct2, err := env.boolTerm(a.Cond)
				if err != nil {
					c.unsupported("assigns condition of %s: %v", ct.Key, err)
					all = true
					break
				}
				for i := range ts {
					ts[i].cond = and(ts[i].cond, ct2)
				}
			}
			targets = append(targets, ts...)
		}
		if all {
			f.frameCheck("*", "", pos, "call "+short)
		}
		for _, t := range targets {
			f.frameCheckQ(t.heap, t.key, t.cond, t.qbind, pos, "call "+short)
		}
		f.applyHavoc(st, targets, all, f.curGuard)
	} else {
		f.frameCheck("*", "", pos, "call "+short)
		f.applyHavoc(st, nil, true, f.curGuard)
	}
	if !ct.Pure {
		f.bumpAlloc(st)
	}
	res := f.freshVal("res$"+mangle(short), rt, st, f.curGuard)
	// bind result names
	var resVals []Val
	if len(res.Tup) > 0 {
		resVals = res.Tup
	} else if res.T != "" {
		resVals = []Val{res}
	}
	names := resultNames(ct, sig)
	for i, v := range resVals {
		if i < len(names) && names[i] != "" && names[i] != "_" {
			env.vars[names[i]] = v
		}
		if len(resVals) == 1 {
			env.vars["result"] = v
		}
	}
	// a pure in-repo function is a function of its arguments and the state it
	// reads: the same uninterpreted function denotes it in specifications
	ghostDependent := false
	if ct.Kind == "extern" {
		// the value of a standard-library call on a reader/writer object is a
		// function of its ghost state (stream position, content), which the
		// heaps read through its fields do not capture: no link for those
		for _, a := range args {
			if a.Typ == nil {
				continue
			}
			ms := types.NewMethodSet(a.Typ)
			for _, name := range []string{"Write", "Read", "WriteString"} {
				for i := 0; i < ms.Len(); i++ {
					if ms.At(i).Obj().Name() == name {
						ghostDependent = true
					}
				}
			}
		}
	}
	if ct.Pure && !ghostDependent && (ct.Kind == "func" || ct.Kind == "extern") && fn != nil && fn.Signature.Results().Len() == 1 && res.T != "" {
		uf := "pure$" + mangle(short)
		var srts, ts []string
		for _, a := range args {
			srts = append(srts, c.sortOf(a.Typ))
			ts = append(ts, a.T)
		}
		for _, h := range c.W.pureReads(fn)(c) {
			srts = append(srts, c.heapSort[h])
			ts = append(ts, c.heapGet(pre, h, c.heapSort[h]))
		}
		c.declFun(uf, srts, c.sortOf(res.Typ))
		c.assume(f.curGuard, eq(res.T, app(uf, ts...)))
	}
	env.cur, env.old = st, pre
	for _, e := range ct.Ensures {
		if strings.HasSuffix(e.Tag, ",local") {
			continue // proved for the callee, not exported to callers
		}
		t, err := env.boolTerm(e.E)
		if err != nil {
			c.unsupported("ensures of %s: %v", ct.Key, err)
			continue
		}
		c.assume(f.curGuard, t)
	}
	return res
}

func resultNames(ct *Contract, sig *types.Signature) []string {
	var names []string
	for i := 0; i < sig.Results().Len(); i++ {
		n := sig.Results().At(i).Name()
		if ct != nil && i < len(ct.Returns) {
			n = ct.Returns[i]
		}
		names = append(names, n)
	}
	return names
}

// calleeEnv builds the spec environment binding the callee's parameters.
func (f *Frame) calleeEnv(ct *Contract, fn *ssa.Function, sig *types.Signature, args []Val) *SpecEnv {
	env := &SpecEnv{f: f, c: f.c, vars: map[string]Val{}, bound: map[string]bool{}}
	var names []string
	if fn != nil {
		for _, fv := range fn.FreeVars {
			names = append(names, fv.Name())
		}
		for _, p := range fn.Params {
			names = append(names, p.Name())
		}
		env.pkg = fn.Pkg
		if fn.Pkg == nil && fn.Parent() != nil {
			env.pkg = fn.Parent().Pkg
		}
		env.fn = fn
	} else {
		if len(ct.Params) > 0 {
			names = ct.Params
		} else {
			if sig.Recv() != nil || ct.Kind == "iface" {
				names = append(names, "recv")
			}
			for i := 0; i < sig.Params().Len(); i++ {
				names = append(names, sig.Params().At(i).Name())
			}
		}
	}
	if len(ct.Params) > 0 {
		names = ct.Params
	}
	for i, a := range args {
		if i < len(names) && names[i] != "" && names[i] != "_" {
			env.vars[names[i]] = a
		}
	}
	return env
}

// callTargets computes what a call inside a loop may modify.
func (f *Frame) callTargets(x ssa.CallInstruction, outside func(ssa.Value) bool, cur *State) ([]havocTarget, bool) {
	c := f.c
	cc := x.Common()
	if b, ok := cc.Value.(*ssa.Builtin); ok {
		switch b.Name() {
		case "append", "copy":
			if len(cc.Args) > 0 {
				if sl, ok := cc.Args[0].Type().Underlying().(*types.Slice); ok {
					h, _ := c.memHeap(sl.Elem())
					return []havocTarget{{h, "", "", ""}, {allocHeap, "", "", ""}}, false
				}
			}
			return nil, true
		case "delete":
			m := cc.Args[0].Type().Underlying().(*types.Map)
			d, v := c.mapHeaps(m)
			return []havocTarget{{d, "", "", ""}, {v, "", "", ""}}, false
		}
		return nil, false
	}
	var ct *Contract
	var fn *ssa.Function
	if cc.IsInvoke() {
		if mi, ok := cc.Value.(*ssa.MakeInterface); ok {
			if m := c.W.Prog.LookupMethod(mi.X.Type(), cc.Method.Pkg(), cc.Method.Name()); m != nil {
				fn = m
				ct = c.W.Specs.Contracts[funcKey(m)]
			}
		}
		if fn == nil {
			ct = c.W.Specs.Contracts[ifaceMethodKey(cc.Method)]
		}
	} else if fn = cc.StaticCallee(); fn != nil {
		ct = c.W.Specs.Contracts[funcKey(fn)]
	} else if fv, ok := f.vals[cc.Value]; ok && fv.Fn != nil {
		fn = fv.Fn
		ct = c.W.Specs.Contracts[funcKey(fn)]
	}
	if ct == nil || ct.Inline {
		if fn != nil && c.W.builtinModel(funcKey(fn)) != nil {
			return c.W.builtinModelTargets(c, funcKey(fn)), false
		}
		if fn != nil && len(fn.Blocks) > 0 && c.W.inlinable(fn) && strings.HasPrefix(funcKey(fn), c.W.ModPath) {
			// conservative: analyse the body's stores
			return f.bodyTargets(fn, 0)
		}
		return nil, true
	}
	if ct.Kind == "func" && !ct.HasAssigns && !ct.Pure {
		return nil, true
	}
	out := []havocTarget{}
	if !ct.Pure {
		out = append(out, havocTarget{allocHeap, "", "", ""})
	}
	// evaluate assigns with the arguments that are available outside the loop;
	// the others are dummies, and a target whose key mentions a dummy covers
	// the whole heap
	var args []Val
	var dummies []string
	arg := func(v ssa.Value) Val {
		if outside(v) {
			if val, ok := f.vals[v]; ok || isConstLike(v) {
				if !ok {
					val = f.val(v)
				}
				if val.T != "" {
					return val
				}
			}
		}
		d := f.dummy(v.Type())
		dummies = append(dummies, strings.Trim(d.T, "|"))
		return d
	}
	if mc, ok := cc.Value.(*ssa.MakeClosure); ok {
		if outside(mc) {
			args = append(args, f.val(mc).Bind...)
		} else if fn != nil {
			for _, fv := range fn.FreeVars {
				d := f.dummy(fv.Type())
				dummies = append(dummies, strings.Trim(d.T, "|"))
				args = append(args, d)
			}
		}
	}
	if cc.IsInvoke() {
		args = append(args, arg(cc.Value))
	}
	for _, a := range cc.Args {
		args = append(args, arg(a))
	}
	avail := true
	var sig *types.Signature = cc.Signature()
	if fn != nil {
		sig = fn.Signature
	}
	env := f.calleeEnv(ct, fn, sig, args)
	if cur == nil {
		cur = f.entry
	}
	env.cur, env.old = cur, cur
	f.c.suppress++
	defer func() { f.c.suppress-- }()
	for _, a := range ct.Assigns {
		if a.Text == "*" {
			return nil, true
		}
		ts, err := env.targets(a.E)
		if err != nil {
			return nil, true
		}
		if a.Cond != nil {
			if ct2, err := env.boolTerm(a.Cond); err == nil {
				for i := range ts {
					ts[i].cond = and(ts[i].cond, ct2)
				}
			}
		}
		for _, t := range ts {
			if t.qbind != "" {
				// a location set inside a loop: the whole heap is havoc'd at the header
				t.key, t.cond, t.qbind = "", "", ""
			}
			for _, d := range dummies {
				if strings.Contains(t.key, d) || strings.Contains(t.cond, d) {
					t.key = ""
					t.cond = ""
				}
			}
			out = append(out, t)
		}
		_ = avail
	}
	return out, false
}

func (f *Frame) dummy(t types.Type) Val {
	c := f.c
	nm := c.fresh("dummy")
	c.declConst(nm, c.sortOf(t))
	return Val{T: q(nm), Typ: t}
}

// bodyTargets over-approximates the heaps an un-contracted, inlinable callee writes.
func (f *Frame) bodyTargets(fn *ssa.Function, depth int) ([]havocTarget, bool) {
	c := f.c
	var out []havocTarget
	if depth > 4 {
		return nil, true
	}
	for _, b := range fn.Blocks {
		for _, ins := range b.Instrs {
			switch x := ins.(type) {
			case *ssa.Store:
				pt, ok := x.Addr.Type().Underlying().(*types.Pointer)
				if !ok {
					return nil, true
				}
				switch a := x.Addr.(type) {
				case *ssa.FieldAddr:
					st := a.X.Type().Underlying().(*types.Pointer).Elem()
					ft := st.Underlying().(*types.Struct).Field(a.Field).Type()
					if isStruct(ft) {
						c.structHeaps(ft, func(h string) { out = append(out, havocTarget{h, "", "", ""}) })
					} else {
						h, _ := c.fieldHeap(st, a.Field)
						out = append(out, havocTarget{h, "", "", ""})
					}
				case *ssa.IndexAddr:
					switch u := a.X.Type().Underlying().(type) {
					case *types.Slice:
						h, _ := c.memHeap(u.Elem())
						out = append(out, havocTarget{h, "", "", ""})
					case *types.Pointer:
						h, _ := c.memHeap(u.Elem().Underlying().(*types.Array).Elem())
						out = append(out, havocTarget{h, "", "", ""})
					}
				default:
					switch u := pt.Elem().Underlying().(type) {
					case *types.Struct:
						c.structHeaps(pt.Elem(), func(h string) { out = append(out, havocTarget{h, "", "", ""}) })
					case *types.Array:
						h, _ := c.memHeap(u.Elem())
						out = append(out, havocTarget{h, "", "", ""})
					default:
						h, _ := c.cellHeap(pt.Elem())
						out = append(out, havocTarget{h, "", "", ""})
					}
				}
			case *ssa.MapUpdate:
				d, v := c.mapHeaps(x.Map.Type().Underlying().(*types.Map))
				out = append(out, havocTarget{d, "", "", ""}, havocTarget{v, "", "", ""})
			case *ssa.Alloc, *ssa.MakeSlice, *ssa.MakeMap, *ssa.MakeClosure:
				out = append(out, havocTarget{allocHeap, "", "", ""})
				if a, ok := x.(*ssa.Alloc); ok {
					et := a.Type().(*types.Pointer).Elem()
					switch u := et.Underlying().(type) {
					case *types.Struct:
						c.structHeaps(et, func(h string) { out = append(out, havocTarget{h, "", "", ""}) })
					case *types.Array:
						h, _ := c.memHeap(u.Elem())
						out = append(out, havocTarget{h, "", "", ""})
					default:
						h, _ := c.cellHeap(et)
						out = append(out, havocTarget{h, "", "", ""})
					}
				}
			case ssa.CallInstruction:
				ts, all := f.callTargets(x, func(ssa.Value) bool { return false }, nil)
				if all {
					return nil, true
				}
				out = append(out, ts...)
			}
		}
	}
	return out, false
}

// ---- builtins ---------------------------------------------------------------------

func (f *Frame) builtin(b *ssa.Builtin, cc *ssa.CallCommon, rt types.Type, st *State, pos token.Pos) Val {
	c := f.c
	var args []Val
	for _, a := range cc.Args {
		args = append(args, f.val(a))
	}
	switch b.Name() {
	case "len":
		return Val{T: f.lenOf(args[0], st), Typ: rt}
	case "cap":
		if _, ok := args[0].Typ.Underlying().(*types.Slice); ok {
			return Val{T: "(sl.cap " + args[0].T + ")", Typ: rt}
		}
	case "append":
		return f.doAppend(cc, args, rt, st, pos)
	case "copy":
		return f.doCopy(args, rt, st, pos)
	case "delete":
		m := args[0]
		mt := m.Typ.Underlying().(*types.Map)
		d, _ := c.mapHeaps(mt)
		f.frameCheck(d, m.T, pos, "delete")
		dh := c.heapGet(st, d, c.heapSort[d])
		c.heapSet(st, d, "(store "+dh+" "+m.T+" (store (select "+dh+" "+m.T+") "+args[1].T+" false))")
		return Val{Typ: rt}
	case "print", "println":
		return Val{Typ: rt}
	case "min", "max":
		if len(args) == 2 {
			lt := c.ilt(args[0].T, args[1].T)
			if ii, _ := intInfoOf(args[0].Typ); !ii.signed && c.Mode == ModeBV {
				lt = "(bvult " + args[0].T + " " + args[1].T + ")"
			}
			if b.Name() == "min" {
				return Val{T: ite(lt, args[0].T, args[1].T), Typ: rt}
			}
			return Val{T: ite(lt, args[1].T, args[0].T), Typ: rt}
		}
	}
	c.unsupported("builtin %s", b.Name())
	return f.freshVal("builtin", rt, st, f.curGuard)
}

func (f *Frame) lenOf(v Val, st *State) string {
	c := f.c
	switch u := v.Typ.Underlying().(type) {
	case *types.Slice:
		return "(sl.len " + v.T + ")"
	case *types.Basic:
		return "(slen " + v.T + ")"
	case *types.Array:
		return c.idxLit(u.Len())
	case *types.Pointer:
		if a, ok := u.Elem().Underlying().(*types.Array); ok {
			return c.idxLit(a.Len())
		}
	case *types.Map:
		h := f.mapLenHeap()
		t := c.name("maplen", ite(eq(v.T, "0"), c.idxLit(0), "(select "+c.heapGet(st, h, c.heapSort[h])+" "+v.T+")"), c.idxSort())
		c.assume(f.curGuard, c.ile(c.idxLit(0), t))
		return t
	}
	c.unsupported("len of %s", v.Typ)
	return c.idxLit(0)
}

// elemsOfVarargs returns the element terms if v is a slice literal of
// statically known length built just before the call.
func (f *Frame) staticElems(v ssa.Value, st *State) ([]string, bool) {
	c := f.c
	sl, ok := v.(*ssa.Slice)
	if !ok || sl.Low != nil || sl.High != nil {
		return nil, false
	}
	al, ok := sl.X.(*ssa.Alloc)
	if !ok {
		return nil, false
	}
	arr, ok := al.Type().(*types.Pointer).Elem().Underlying().(*types.Array)
	if !ok || arr.Len() > 16 {
		return nil, false
	}
	base := f.val(al)
	h, srt := c.memHeap(arr.Elem())
	var out []string
	for i := int64(0); i < arr.Len(); i++ {
		out = append(out, "(select (select "+c.heapGet(st, h, srt)+" "+base.T+") "+c.idxLit(i)+")")
	}
	return out, true
}

func (f *Frame) doAppend(cc *ssa.CallCommon, args []Val, rt types.Type, st *State, pos token.Pos) Val {
	c := f.c
	s := args[0]
	elemT := rt.Underlying().(*types.Slice).Elem()
	h, srt := c.memHeap(elemT)
	mem := c.heapGet(st, h, srt)
	idx := c.idxSort()
	es := c.sortOf(elemT)
	arrSort := "(Array " + idx + " " + es + ")"
	sBase, sOff, sLen, sCap := "(sl.base "+s.T+")", "(sl.off "+s.T+")", "(sl.len "+s.T+")", "(sl.cap "+s.T+")"
	var n string
	elems, static := f.staticElems(cc.Args[1], st)
	t := args[1]
	isStr := false
	if bt, ok := t.Typ.Underlying().(*types.Basic); ok && bt.Info()&types.IsString != 0 {
		isStr = true
	}
	if static {
		n = c.idxLit(int64(len(elems)))
	} else if isStr {
		n = "(slen " + t.T + ")"
	} else {
		n = "(sl.len " + t.T + ")"
	}
	newLen := c.name("applen", c.iadd(sLen, n), idx)
	fits := c.name("fits", c.ile(newLen, sCap), "Bool")
	// source element i
	srcAt := func(i string) string {
		if isStr {
			return "(sat " + t.T + " " + i + ")"
		}
		return "(select (select " + mem + " (sl.base " + t.T + ")) " + c.eidx("(sl.off "+t.T+")", i) + ")"
	}
	oldArr := "(select " + mem + " " + sBase + ")"
	newBase := c.newRef(st, "append")
	newCap := c.fresh("newcap")
	c.declConst(newCap, idx)
	var maxLen string
	if c.Mode == ModeBV {
		maxLen = bvLit(pow2(48), 64)
	} else {
		maxLen = maxLenStr
	}
	c.assume(f.curGuard, and(c.ile(newLen, q(newCap)), c.ile(q(newCap), maxLen)))
	var inplace, realloc string
	if static {
		inplace = oldArr
		for i, e := range elems {
			inplace = "(store " + inplace + " " + c.iadd(c.iadd(sOff, sLen), c.idxLit(int64(i))) + " " + e + ")"
		}
		ra := c.fresh("apparr")
		c.declConst(ra, arrSort)
		c.assume(f.curGuard, fmt.Sprintf("(forall ((i!q %s)) (! (=> %s (= (select %s i!q) (select %s %s))) :pattern ((select %s i!q))))", idx, and(c.ile(c.idxLit(0), "i!q"), c.ilt("i!q", sLen)), q(ra), oldArr, c.eidx(sOff, "i!q"), q(ra)))
		realloc = q(ra)
		for i, e := range elems {
			realloc = "(store " + realloc + " " + c.iadd(sLen, c.idxLit(int64(i))) + " " + e + ")"
		}
	} else {
		ia := c.fresh("apparr")
		c.declConst(ia, arrSort)
		start := c.name("appstart", c.iadd(sOff, sLen), idx)
		inRange := and(c.ile(start, "i!q"), c.ilt("i!q", c.iadd(start, n)))
		c.assume(f.curGuard, fmt.Sprintf("(forall ((i!q %s)) (! (= (select %s i!q) (ite %s %s (select %s i!q))) :pattern ((select %s i!q))))", idx, q(ia), inRange, srcAt(c.isub("i!q", start)), oldArr, q(ia)))
		inplace = q(ia)
		ra := c.fresh("apparr")
		c.declConst(ra, arrSort)
		c.assume(f.curGuard, fmt.Sprintf("(forall ((i!q %s)) (! (=> %s (= (select %s i!q) (ite %s (select %s %s) %s))) :pattern ((select %s i!q))))", idx, and(c.ile(c.idxLit(0), "i!q"), c.ilt("i!q", newLen)), q(ra), c.ilt("i!q", sLen), oldArr, c.eidx(sOff, "i!q"), srcAt(c.isub("i!q", sLen)), q(ra)))
		realloc = q(ra)
	}
	if c.frameOn && !c.frameWhole[h] && c.suppress == 0 {
		alts := []string{not(fits), "(>= " + sBase + " " + c.heap0[allocHeap] + ")"}
		for _, a := range c.frameAllowed[h] {
			alts = append(alts, eq(sBase, a))
		}
		for _, a := range c.frameAllowedCond[h] {
			alts = append(alts, and(a[1], eq(sBase, a[0])))
		}
		f.oblige("frame", f.srcKey(pos, "append")+" "+h, or(alts...), pos, "in-place append outside the assigns clause")
	}
	c.heapSet(st, h, ite(fits, "(store "+mem+" "+sBase+" "+inplace+")", "(store "+mem+" "+newBase+" "+realloc+")"))
	res := ite(fits, c.mkSlice(sBase, sOff, newLen, sCap), c.mkSlice(newBase, c.idxLit(0), newLen, q(newCap)))
	return Val{T: res, Typ: rt}
}

func (f *Frame) doCopy(args []Val, rt types.Type, st *State, pos token.Pos) Val {
	c := f.c
	d, s := args[0], args[1]
	elemT := d.Typ.Underlying().(*types.Slice).Elem()
	h, srt := c.memHeap(elemT)
	mem := c.heapGet(st, h, srt)
	idx := c.idxSort()
	arrSort := "(Array " + idx + " " + c.sortOf(elemT) + ")"
	isStr := false
	if bt, ok := s.Typ.Underlying().(*types.Basic); ok && bt.Info()&types.IsString != 0 {
		isStr = true
	}
	var sl string
	if isStr {
		sl = "(slen " + s.T + ")"
	} else {
		sl = "(sl.len " + s.T + ")"
	}
	dl := "(sl.len " + d.T + ")"
	n := c.name("ncopy", ite(c.ilt(sl, dl), sl, dl), idx)
	srcAt := func(i string) string {
		if isStr {
			return "(sat " + s.T + " " + i + ")"
		}
		return "(select (select " + mem + " (sl.base " + s.T + ")) " + c.eidx("(sl.off "+s.T+")", i) + ")"
	}
	dOff := "(sl.off " + d.T + ")"
	oldArr := "(select " + mem + " (sl.base " + d.T + "))"
	na := c.fresh("cparr")
	c.declConst(na, arrSort)
	inRange := and(c.ile(dOff, "i!q"), c.ilt("i!q", c.iadd(dOff, n)))
	c.assume(f.curGuard, fmt.Sprintf("(forall ((i!q %s)) (! (= (select %s i!q) (ite %s %s (select %s i!q))) :pattern ((select %s i!q))))", idx, q(na), inRange, srcAt(c.isub("i!q", dOff)), oldArr, q(na)))
	f.frameCheck(h, "(sl.base "+d.T+")", pos, "copy")
	c.heapSet(st, h, "(store "+mem+" (sl.base "+d.T+") "+q(na)+")")
	if c.Mode == ModeBV {
		return Val{T: n, Typ: rt}
	}
	return Val{T: n, Typ: rt}
}

func isConstLike(v ssa.Value) bool {
	switch v.(type) {
	case *ssa.Const, *ssa.Global, *ssa.Function:
		return true
	}
	return false
}

// reaches: can a call to from eventually call to (static call graph)?
func (w *World) reaches(from, to *ssa.Function) bool {
	seen := map[*ssa.Function]bool{}
	var dfs func(fn *ssa.Function) bool
	dfs = func(fn *ssa.Function) bool {
		if fn == to {
			return true
		}
		if seen[fn] || len(seen) > 400 {
			return false
		}
		seen[fn] = true
		for _, b := range fn.Blocks {
			for _, ins := range b.Instrs {
				if ci, ok := ins.(ssa.CallInstruction); ok {
					if callee := ci.Common().StaticCallee(); callee != nil && callee.Pkg != nil && strings.HasPrefix(callee.Pkg.Pkg.Path(), w.ModPath) {
						if dfs(callee) {
							return true
						}
					}
				}
			}
		}
		return false
	}
	return dfs(from)
}
