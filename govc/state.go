package main

// Symbolic heap: named arrays, versioned by fresh constants.

import (
	"go/types"
	"sort"
	"strings"
)

type State struct {
	H map[string]string
}

func (s *State) clone() *State {
	n := &State{H: make(map[string]string, len(s.H))}
	for k, v := range s.H {
		n.H[k] = v
	}
	return n
}

const allocHeap = "$alloc"

// heapGet returns the current term of heap name, declaring its initial
// constant on first use.
func (c *Ctx) heapGet(st *State, name, sort string) string {
	if t, ok := st.H[name]; ok {
		return t
	}
	return c.heapInit(name, sort)
}

func (c *Ctx) heapInit(name, sort string) string {
	if t, ok := c.heap0[name]; ok {
		return t
	}
	if sort == "" {
		sort = c.heapSort[name]
		if sort == "" {
			panic("heap sort unknown: " + name)
		}
	}
	c.heapSort[name] = sort
	n := "H0$" + name
	c.declConst(n, sort)
	c.heap0[name] = q(n)
	if name != allocHeap {
		c.frontier[q(n)] = c.heapInit(allocHeap, "Int")
	}
	return q(n)
}

// heapSet installs a new version of heap name.
func (c *Ctx) heapSet(st *State, name, term string) {
	sort := c.heapSort[name]
	if sort == "" {
		panic("heapSet before heapGet: " + name)
	}
	v := c.fresh("H$" + name)
	c.declConst(v, sort)
	c.assert(eq(q(v), term))
	st.H[name] = q(v)
	c.frontier[q(v)] = c.allocTerm(st)
}

func (c *Ctx) heapHavoc(st *State, name string) string {
	sort := c.heapSort[name]
	if sort == "" {
		panic("heapHavoc before heapGet: " + name)
	}
	v := c.fresh("Hv$" + name)
	c.declConst(v, sort)
	st.H[name] = q(v)
	c.frontier[q(v)] = "" // unknown: filled by the caller's current frontier
	return q(v)
}

func (c *Ctx) allocTerm(st *State) string { return c.heapGet(st, allocHeap, "Int") }

// newRef allocates a fresh reference.
func (c *Ctx) newRef(st *State, hint string) string {
	r := c.fresh("ref$" + hint)
	c.declConst(r, "Int")
	cur := c.allocTerm(st)
	c.assert(eq(q(r), cur))
	c.assert("(> " + q(r) + " 0)")
	// objects are spaced refStride apart: the embedded struct objects of an
	// object live at small offsets above its reference (see subRef)
	st.H[allocHeap] = "(+ " + q(r) + " " + refStride + ")"
	return q(r)
}

// mergeStates builds the ite-merge of states under their guards.
func (c *Ctx) mergeStates(guards []string, sts []*State) *State {
	if len(sts) == 1 {
		return sts[0].clone()
	}
	names := map[string]bool{}
	for _, s := range sts {
		for k := range s.H {
			names[k] = true
		}
	}
	var ks []string
	for k := range names {
		ks = append(ks, k)
	}
	sort.Strings(ks)
	out := &State{H: map[string]string{}}
	var merged []string
	for _, k := range ks {
		var terms []string
		same := true
		for _, s := range sts {
			t, ok := s.H[k]
			if !ok {
				t = c.heapInit(k, "")
			}
			terms = append(terms, t)
			if t != terms[0] {
				same = false
			}
		}
		if same {
			out.H[k] = terms[0]
			continue
		}
		t := terms[len(terms)-1]
		for i := len(terms) - 2; i >= 0; i-- {
			t = ite(guards[i], terms[i], t)
		}
		if k == allocHeap {
			out.H[k] = t
			v := c.fresh("alloc")
			c.declConst(v, "Int")
			c.assert(eq(q(v), t))
			out.H[k] = q(v)
			continue
		}
		v := c.fresh("Hm$" + k)
		c.declConst(v, c.heapSort[k])
		c.assert(eq(q(v), t))
		out.H[k] = q(v)
		merged = append(merged, q(v))
	}
	for _, m := range merged {
		c.frontier[m] = c.allocTerm(out)
	}
	return out
}

// ---- heap naming -------------------------------------------------------------

func (c *Ctx) fieldHeap(st types.Type, i int) (string, string) {
	s := st.Underlying().(*types.Struct)
	name := "F$" + typeKey(st) + "$" + s.Field(i).Name()
	sort := "(Array Int " + c.sortOf(s.Field(i).Type()) + ")"
	c.heapSort[name] = sort
	return name, sort
}

func (c *Ctx) memHeap(elem types.Type) (string, string) {
	name := "Mem$" + typeKey(elem)
	sort := "(Array Int (Array " + c.idxSort() + " " + c.sortOf(elem) + "))"
	c.heapSort[name] = sort
	return name, sort
}

func (c *Ctx) cellHeap(t types.Type) (string, string) {
	name := "Cell$" + typeKey(t)
	sort := "(Array Int " + c.sortOf(t) + ")"
	c.heapSort[name] = sort
	return name, sort
}

func (c *Ctx) mapHeaps(m *types.Map) (dom, val string) {
	k := typeKey(m.Key()) + "$" + typeKey(m.Elem())
	dom = "MapDom$" + k
	val = "MapVal$" + k
	c.heapSort[dom] = "(Array Int (Array " + c.sortOf(m.Key()) + " Bool))"
	c.heapSort[val] = "(Array Int (Array " + c.sortOf(m.Key()) + " " + c.sortOf(m.Elem()) + "))"
	return
}

func (c *Ctx) ghostHeap(name string, valSort string) string {
	h := "G$" + name
	c.heapSort[h] = "(Array Int " + valSort + ")"
	return h
}

// refStride is the distance between allocated references (2^60). The
// reference of an embedded struct object is its owner's reference plus a
// distinct power of two below the stride, so embedded objects are as old as
// their owner, distinct from every allocated object and from each other.
const refStride = "1152921504606846976"

// subRef is the reference of the struct-typed field i of the struct object r.
func (c *Ctx) subRef(st types.Type, i int, r string) string {
	s := st.Underlying().(*types.Struct)
	fn := "sub$" + typeKey(st) + "$" + s.Field(i).Name()
	k := c.W.subOffset(fn)
	return "(+ " + r + " " + k + ")"
}

func isStruct(t types.Type) bool {
	_, ok := t.Underlying().(*types.Struct)
	return ok
}

func isArray(t types.Type) bool {
	_, ok := t.Underlying().(*types.Array)
	return ok
}

// loadObj reads the value of type t stored in the object designated by ref r.
func (c *Ctx) loadObj(st *State, r string, t types.Type) string {
	switch u := t.Underlying().(type) {
	case *types.Struct:
		var fs []string
		for i := 0; i < u.NumFields(); i++ {
			ft := u.Field(i).Type()
			if isStruct(ft) {
				fs = append(fs, c.loadObj(st, c.subRef(t, i, r), ft))
			} else {
				h, srt := c.fieldHeap(t, i)
				fs = append(fs, "(select "+c.heapGet(st, h, srt)+" "+r+")")
			}
		}
		return c.structMk(t, fs)
	case *types.Array:
		h, srt := c.memHeap(u.Elem())
		return "(select " + c.heapGet(st, h, srt) + " " + r + ")"
	}
	h, srt := c.cellHeap(t)
	return "(select " + c.heapGet(st, h, srt) + " " + r + ")"
}

// storeObj writes value v of type t into the object designated by r.
func (c *Ctx) storeObj(st *State, r string, t types.Type, v string) {
	switch u := t.Underlying().(type) {
	case *types.Struct:
		for i := 0; i < u.NumFields(); i++ {
			ft := u.Field(i).Type()
			fv := c.structSel(t, i, v)
			if isStruct(ft) {
				c.storeObj(st, c.subRef(t, i, r), ft, fv)
			} else {
				h, srt := c.fieldHeap(t, i)
				c.heapSet(st, h, "(store "+c.heapGet(st, h, srt)+" "+r+" "+fv+")")
			}
		}
		return
	case *types.Array:
		h, srt := c.memHeap(u.Elem())
		c.heapSet(st, h, "(store "+c.heapGet(st, h, srt)+" "+r+" "+v+")")
		return
	}
	h, srt := c.cellHeap(t)
	c.heapSet(st, h, "(store "+c.heapGet(st, h, srt)+" "+r+" "+v+")")
}

func (c *Ctx) loadLoc(st *State, l *Loc) string {
	v := "(select " + c.heapGet(st, l.Heap, c.heapSort[l.Heap]) + " " + l.Key + ")"
	for _, a := range l.Path {
		if a.Field >= 0 {
			v = c.structSel(a.STyp, a.Field, v)
		} else {
			v = "(select " + v + " " + a.Idx + ")"
		}
	}
	return v
}

func (c *Ctx) storeLoc(st *State, l *Loc, val string) {
	h := c.heapGet(st, l.Heap, c.heapSort[l.Heap])
	root := "(select " + h + " " + l.Key + ")"
	nv := c.updatePath(root, l.Path, val)
	c.heapSet(st, l.Heap, "(store "+h+" "+l.Key+" "+nv+")")
}

func (c *Ctx) updatePath(root string, path []acc, val string) string {
	if len(path) == 0 {
		return val
	}
	a := path[0]
	if a.Field >= 0 {
		s := a.STyp.Underlying().(*types.Struct)
		var fs []string
		for i := 0; i < s.NumFields(); i++ {
			cur := c.structSel(a.STyp, i, root)
			if i == a.Field {
				fs = append(fs, c.updatePath(cur, path[1:], val))
			} else {
				fs = append(fs, cur)
			}
		}
		return c.structMk(a.STyp, fs)
	}
	inner := "(select " + root + " " + a.Idx + ")"
	return "(store " + root + " " + a.Idx + " " + c.updatePath(inner, path[1:], val) + ")"
}

// name binds term t to a fresh constant (keeps formulas small, models readable).
func (c *Ctx) name(hint string, t string, sort string) string {
	if !strings.ContainsAny(t, " (") {
		return t
	}
	v := c.fresh(hint)
	c.declConst(v, sort)
	c.assert(eq(q(v), t))
	return q(v)
}
