package main

// Sorts, values and SMT text helpers.

import (
	"fmt"
	"go/constant"
	"go/token"
	"go/types"
	"math/big"
	"sort"
	"strings"

	"golang.org/x/tools/go/ssa"
)

type Mode int

const (
	ModeInt Mode = iota
	ModeBV
)

// mathInt is the pseudo-type of mathematical (unbounded) integers in specs.
var mathInt = types.NewNamed(types.NewTypeName(token.NoPos, nil, "mathint", nil), types.Typ[types.Int], nil)

type Val struct {
	T   string     // SMT term; "" for location-only pointers and tuples
	Typ types.Type // Go type (mathInt for spec integers)
	Loc *Loc       // interior pointer
	Tup []Val      // tuple value
	Fn  *ssa.Function // statically known function value (closure or func)
	Bind []Val        // closure bindings
	NoFacts bool      // derived from a bound variable of aggregate type: no heap type invariant applies
}

type acc struct {
	Field int    // struct field index, or -1
	Idx   string // index term when Field == -1
	STyp  types.Type // type of the aggregate being accessed
}

type Loc struct {
	Heap string
	Key  string
	Path []acc
	Typ  types.Type // type of the designated storage
}

type Obligation struct {
	Name    string
	Kind    string
	Func    string
	Guard   string
	Goal    string
	Prefix  int // number of log entries visible
	Pos     token.Pos
	Text    string // source/contract text
	Ctx     *Ctx
	Extra   []string // extra assertions (after prefix)
	ExpectSat bool   // vacuity cover query: must be SAT
	Relaxed   bool   // counterexample search without quantified assumptions
	Consistency bool // full-context vacuity guard: must NOT be unsat
	Blk       int    // block of the function under verification the obligation arises in (-1: whole function)
	Parts     []*Obligation // an obligation that is the conjunction of per-return-site parts
}

// Ctx is the verification context of one top-level function (or lemma).
type Ctx struct {
	W     *World
	Mode  Mode
	Fn    *ssa.Function
	Decls []string // declarations, always all included
	Log   []string // assertions, prefix-sliced per obligation
	Obls  []*Obligation
	n     int
	declared map[string]bool
	heapSort map[string]string
	heap0    map[string]string
	litStr   map[string]string
	typeIDs  map[string]int
	Unsupported []string // reasons the function left the subset
	Notes       []string
	oblNames map[string]int
	inlineDepth int
	usedContracts map[string]bool
	usedUF map[string]bool
	axiomsEmitted bool
	suppress int // >0: do not record obligations (pure spec evaluation)
	strict bool // slice hi <= len
	paramVals map[string]Val
	retMerged []Val
	retState  *State
	entryEnv  *SpecEnv
	axiomsUsed []string
	frontier   map[string]string // heap version -> allocation frontier when it was created
	frameOn      bool
	LogBlk       []int // originating block (of the function under verification) of each log entry; -1 = unconditional
	curTopBlock  int
	ancestors    map[int]map[int]bool // block -> blocks from which it is reachable (incl. itself)
	asciiLits    []string
	utf8Declared bool
	lastPi, lastPiInv string
	frameAllowed map[string][]string
	frameAllowedCond map[string][][2]string
	frameAllowedQ    map[string][]havocTarget // quantified location sets of the own assigns clause
	factSeen         map[string]bool
	frameWhole   map[string]bool
}

func NewCtx(w *World, fn *ssa.Function, mode Mode) *Ctx {
	return &Ctx{curTopBlock: -1, W: w, Fn: fn, Mode: mode, declared: map[string]bool{}, heapSort: map[string]string{}, heap0: map[string]string{},
		litStr: map[string]string{}, typeIDs: map[string]int{}, oblNames: map[string]int{}, usedContracts: map[string]bool{}, usedUF: map[string]bool{}, frontier: map[string]string{}}
}

func (c *Ctx) fresh(prefix string) string {
	c.n++
	return fmt.Sprintf("%s!%d", prefix, c.n)
}

func (c *Ctx) decl(s string) { c.Decls = append(c.Decls, s) }

func (c *Ctx) declConst(name, sort string) {
	if c.declared[name] {
		return
	}
	c.declared[name] = true
	c.decl(fmt.Sprintf("(declare-fun %s () %s)", q(name), sort))
}

func (c *Ctx) declFun(name string, args []string, res string) {
	if c.declared[name] {
		return
	}
	c.declared[name] = true
	c.decl(fmt.Sprintf("(declare-fun %s (%s) %s)", q(name), strings.Join(args, " "), res))
}

func (c *Ctx) assert(t string) {
	if t == "true" {
		return
	}
	c.Log = append(c.Log, "(assert "+t+")")
	for len(c.LogBlk) < len(c.Log) {
		c.LogBlk = append(c.LogBlk, c.curTopBlock)
	}
}

// assertFact asserts a type-invariant axiom once per originating block (the
// relevance slicing keeps an assertion only for obligations its block reaches).
func (c *Ctx) assertFact(t string) {
	if c.factSeen == nil {
		c.factSeen = map[string]bool{}
	}
	k := fmt.Sprint(c.curTopBlock) + "\x00" + t
	if c.factSeen[k] || c.factSeen["-1\x00"+t] {
		return
	}
	c.factSeen[k] = true
	c.assert(t)
}

// assume asserts t under guard g.
func (c *Ctx) assume(g, t string) {
	if t == "true" {
		return
	}
	c.assert(implies(g, t))
}

func (c *Ctx) unsupported(f string, a ...interface{}) {
	c.Unsupported = append(c.Unsupported, fmt.Sprintf(f, a...))
}

// q quotes an SMT symbol if needed.
func q(s string) string {
	for i := 0; i < len(s); i++ {
		ch := s[i]
		if !(ch == '_' || ch == '.' || ch == '!' || ch == '$' || ch == '-' || (ch >= 'a' && ch <= 'z') || (ch >= 'A' && ch <= 'Z') || (ch >= '0' && ch <= '9')) {
			return "|" + strings.ReplaceAll(s, "|", "!") + "|"
		}
	}
	return s
}

func mangle(s string) string {
	r := strings.NewReplacer("github.com/WICG/webpackage/go/", "", "/", ".", " ", "", "*", "P", "[", "L", "]", "R", "{", "", "}", "", ",", "_", "(", "", ")", "", "|", "!", ";", "_")
	return r.Replace(s)
}

func and(ts ...string) string {
	var out []string
	for _, t := range ts {
		if t == "true" || t == "" {
			continue
		}
		if t == "false" {
			return "false"
		}
		out = append(out, t)
	}
	switch len(out) {
	case 0:
		return "true"
	case 1:
		return out[0]
	}
	return "(and " + strings.Join(out, " ") + ")"
}

func or(ts ...string) string {
	var out []string
	for _, t := range ts {
		if t == "false" || t == "" {
			continue
		}
		if t == "true" {
			return "true"
		}
		out = append(out, t)
	}
	switch len(out) {
	case 0:
		return "false"
	case 1:
		return out[0]
	}
	return "(or " + strings.Join(out, " ") + ")"
}

func not(t string) string {
	switch t {
	case "true":
		return "false"
	case "false":
		return "true"
	}
	if strings.HasPrefix(t, "(not ") && balanced(t[5:len(t)-1]) {
		return t[5 : len(t)-1]
	}
	return "(not " + t + ")"
}

func balanced(s string) bool {
	d := 0
	inq := false
	for i := 0; i < len(s); i++ {
		switch s[i] {
		case '|':
			inq = !inq
		case '(':
			if !inq {
				d++
			}
		case ')':
			if !inq {
				d--
				if d < 0 {
					return false
				}
			}
		}
	}
	return d == 0
}

func implies(a, b string) string {
	if a == "true" || a == "" {
		return b
	}
	if b == "true" {
		return "true"
	}
	if a == "false" {
		return "true"
	}
	return "(=> " + a + " " + b + ")"
}

func ite(c, a, b string) string {
	if c == "true" {
		return a
	}
	if c == "false" {
		return b
	}
	if a == b {
		return a
	}
	return "(ite " + c + " " + a + " " + b + ")"
}

func eq(a, b string) string {
	if a == b {
		return "true"
	}
	return "(= " + a + " " + b + ")"
}

func app(f string, args ...string) string {
	if len(args) == 0 {
		return q(f)
	}
	return "(" + q(f) + " " + strings.Join(args, " ") + ")"
}

// ---- integer helpers -------------------------------------------------------

type intInfo struct {
	bits   int
	signed bool
}

func intInfoOf(t types.Type) (intInfo, bool) {
	if t == mathInt {
		return intInfo{0, true}, true
	}
	b, ok := t.Underlying().(*types.Basic)
	if !ok {
		return intInfo{}, false
	}
	switch b.Kind() {
	case types.Int, types.Int64:
		return intInfo{64, true}, true
	case types.Int32:
		return intInfo{32, true}, true
	case types.Int16:
		return intInfo{16, true}, true
	case types.Int8:
		return intInfo{8, true}, true
	case types.Uint, types.Uint64, types.Uintptr:
		return intInfo{64, false}, true
	case types.Uint32:
		return intInfo{32, false}, true
	case types.Uint16:
		return intInfo{16, false}, true
	case types.Uint8:
		return intInfo{8, false}, true
	case types.UntypedInt, types.UntypedRune:
		return intInfo{0, true}, true
	}
	return intInfo{}, false
}

func pow2(n int) *big.Int { return new(big.Int).Lsh(big.NewInt(1), uint(n)) }

func (ii intInfo) min() *big.Int {
	if !ii.signed {
		return big.NewInt(0)
	}
	return new(big.Int).Neg(pow2(ii.bits - 1))
}
func (ii intInfo) max() *big.Int {
	if ii.signed {
		return new(big.Int).Sub(pow2(ii.bits-1), big.NewInt(1))
	}
	return new(big.Int).Sub(pow2(ii.bits), big.NewInt(1))
}

func intLit(n *big.Int) string {
	if n.Sign() < 0 {
		return "(- " + new(big.Int).Neg(n).String() + ")"
	}
	return n.String()
}

func bvLit(n *big.Int, bits int) string {
	m := new(big.Int).Mod(n, pow2(bits))
	return fmt.Sprintf("(_ bv%s %d)", m.String(), bits)
}

// numLit renders integer constant n of Go type t in the context's mode.
func (c *Ctx) numLit(n *big.Int, t types.Type) string {
	ii, _ := intInfoOf(t)
	if c.Mode == ModeBV && ii.bits > 0 {
		return bvLit(n, ii.bits)
	}
	if c.Mode == ModeBV && ii.bits == 0 {
		return bvLit(n, 64)
	}
	return intLit(n)
}

func (c *Ctx) idxSort() string {
	if c.Mode == ModeBV {
		return "(_ BitVec 64)"
	}
	return "Int"
}

func (c *Ctx) idxLit(n int64) string {
	if c.Mode == ModeBV {
		return bvLit(big.NewInt(n), 64)
	}
	return intLit(big.NewInt(n))
}

// wrap normalises mathematical term x into the range of integer type t (int mode).
func (c *Ctx) wrap(x string, t types.Type) string {
	ii, ok := intInfoOf(t)
	if !ok || ii.bits == 0 || c.Mode == ModeBV {
		return x
	}
	m := pow2(ii.bits).String()
	if !ii.signed {
		return "(mod " + x + " " + m + ")"
	}
	h := pow2(ii.bits - 1).String()
	return "(- (mod (+ " + x + " " + h + ") " + m + ") " + h + ")"
}

// wrap1 wraps a value known to be off by at most one modulus (add/sub results).
func (c *Ctx) wrap1(x string, t types.Type) string {
	ii, ok := intInfoOf(t)
	if !ok || ii.bits == 0 || c.Mode == ModeBV {
		return x
	}
	m := pow2(ii.bits).String()
	lo, hi := intLit(ii.min()), intLit(ii.max())
	v := c.fresh("w")
	return fmt.Sprintf("(let ((%s %s)) (ite (> %s %s) (- %s %s) (ite (< %s %s) (+ %s %s) %s)))", v, x, v, hi, v, m, v, lo, v, m, v)
}

// ---- sorts -----------------------------------------------------------------

func (c *Ctx) sliceSort() string { return "Slice" }

func (c *Ctx) sortOf(t types.Type) string {
	if t == bytesT {
		return "Bytes"
	}
	if t == mathInt {
		if c.Mode == ModeBV {
			return "(_ BitVec 64)"
		}
		return "Int"
	}
	switch u := t.Underlying().(type) {
	case *types.Basic:
		switch {
		case u.Info()&types.IsBoolean != 0:
			return "Bool"
		case u.Info()&types.IsInteger != 0:
			if c.Mode == ModeBV {
				ii, _ := intInfoOf(t)
				b := ii.bits
				if b == 0 {
					b = 64
				}
				return fmt.Sprintf("(_ BitVec %d)", b)
			}
			return "Int"
		case u.Info()&types.IsString != 0:
			return "Str"
		case u.Kind() == types.UnsafePointer:
			return "Int"
		case u.Kind() == types.UntypedNil:
			return "Int"
		case u.Info()&types.IsFloat != 0:
			return "Real"
		}
	case *types.Pointer, *types.Map, *types.Chan, *types.Signature:
		return "Int"
	case *types.Slice:
		return "Slice"
	case *types.Interface:
		return "Iface"
	case *types.Array:
		return "(Array " + c.idxSort() + " " + c.sortOf(u.Elem()) + ")"
	case *types.Struct:
		return c.structSort(t)
	case *types.Tuple:
		return "Int"
	}
	c.unsupported("sort of %s", t)
	return "Int"
}

func typeKey(t types.Type) string {
	return mangle(types.TypeString(t, nil))
}

func (c *Ctx) structSort(t types.Type) string {
	st := t.Underlying().(*types.Struct)
	name := "S$" + typeKey(t)
	if _, ok := t.(*types.Named); !ok {
		name = "S$anon" + typeKey(t)
	}
	if c.declared[name] {
		return q(name)
	}
	c.declared[name] = true
	var fs []string
	for i := 0; i < st.NumFields(); i++ {
		fs = append(fs, fmt.Sprintf("(%s %s)", q(fmt.Sprintf("%s$%d", name, i)), c.sortOf(st.Field(i).Type())))
	}
	if len(fs) == 0 {
		c.decl(fmt.Sprintf("(declare-datatypes ((%s 0)) (((%s))))", q(name), q("mk$"+name)))
	} else {
		c.decl(fmt.Sprintf("(declare-datatypes ((%s 0)) (((%s %s))))", q(name), q("mk$"+name), strings.Join(fs, " ")))
	}
	return q(name)
}

func (c *Ctx) structSel(t types.Type, i int, x string) string {
	name := c.structSort(t)
	name = strings.Trim(name, "|")
	return "(" + q(fmt.Sprintf("%s$%d", name, i)) + " " + x + ")"
}

func (c *Ctx) structMk(t types.Type, fields []string) string {
	name := strings.Trim(c.structSort(t), "|")
	if len(fields) == 0 {
		return q("mk$" + name)
	}
	return "(" + q("mk$"+name) + " " + strings.Join(fields, " ") + ")"
}

// zero value of a Go type.
func (c *Ctx) zero(t types.Type) string {
	switch u := t.Underlying().(type) {
	case *types.Basic:
		switch {
		case u.Info()&types.IsBoolean != 0:
			return "false"
		case u.Info()&types.IsInteger != 0:
			return c.numLit(big.NewInt(0), t)
		case u.Info()&types.IsString != 0:
			return c.strLit("")
		case u.Info()&types.IsFloat != 0:
			return "0.0"
		}
		return "0"
	case *types.Pointer, *types.Map, *types.Chan, *types.Signature:
		return "0"
	case *types.Slice:
		return c.mkSlice("0", c.idxLit(0), c.idxLit(0), c.idxLit(0))
	case *types.Interface:
		return "(mk-iface 0 0)"
	case *types.Array:
		return fmt.Sprintf("((as const %s) %s)", c.sortOf(t), c.zero(u.Elem()))
	case *types.Struct:
		var fs []string
		for i := 0; i < u.NumFields(); i++ {
			fs = append(fs, c.zero(u.Field(i).Type()))
		}
		return c.structMk(t, fs)
	}
	return "0"
}

func (c *Ctx) mkSlice(base, off, ln, cp string) string {
	return "(mk-slice " + base + " " + off + " " + ln + " " + cp + ")"
}

// ---- string literals -------------------------------------------------------

func (c *Ctx) strLit(s string) string {
	if n, ok := c.litStr[s]; ok {
		return n
	}
	name := fmt.Sprintf("lit$%d", len(c.litStr))
	c.litStr[s] = name
	c.declConst(name, "Str")
	// ground axioms: length, characters, distinctness from other literals
	c.Decls = append(c.Decls, fmt.Sprintf("(assert (= (slen %s) %s))", name, c.idxLit(int64(len(s)))))
	if len(s) <= 64 {
		for i := 0; i < len(s); i++ {
			c.Decls = append(c.Decls, fmt.Sprintf("(assert (= (sat %s %s) %s))", name, c.idxLit(int64(i)), c.numLit(big.NewInt(int64(s[i])), types.Typ[types.Byte])))
		}
	}
	for o, on := range c.litStr {
		if o != s {
			c.Decls = append(c.Decls, fmt.Sprintf("(assert (not (= %s %s)))", name, on))
		}
	}
	ascii := true
	for i := 0; i < len(s); i++ {
		if s[i] >= 0x80 {
			ascii = false
		}
	}
	if ascii {
		c.asciiLits = append(c.asciiLits, name)
		if c.utf8Declared {
			c.Decls = append(c.Decls, "(assert (uf$utf8valid (strbytes "+name+")))")
		}
	}
	return name
}

// ---- type ids --------------------------------------------------------------

func (c *Ctx) typeID(t types.Type) string {
	k := types.TypeString(t, nil)
	if id, ok := c.typeIDs[k]; ok {
		return fmt.Sprint(id)
	}
	id := len(c.typeIDs) + 1
	c.typeIDs[k] = id
	return fmt.Sprint(id)
}

// ---- constants -------------------------------------------------------------

func (c *Ctx) constVal(k *ssa.Const) Val {
	t := k.Type()
	if k.Value == nil {
		return Val{T: c.zero(t), Typ: t}
	}
	switch k.Value.Kind() {
	case constant.Bool:
		if constant.BoolVal(k.Value) {
			return Val{T: "true", Typ: t}
		}
		return Val{T: "false", Typ: t}
	case constant.String:
		return Val{T: c.strLit(constant.StringVal(k.Value)), Typ: t}
	case constant.Int:
		n, _ := new(big.Int).SetString(k.Value.ExactString(), 10)
		return Val{T: c.numLit(n, t), Typ: t}
	}
	c.unsupported("constant %v", k)
	return Val{T: "0", Typ: t}
}

// typeFacts returns the type invariant of term x of type t (ranges, slice
// well-formedness, interface well-formedness). alloc is the current
// allocation frontier term ("" to omit).
func (c *Ctx) typeFacts(x string, t types.Type, alloc string) string {
	if t == mathInt {
		return "true"
	}
	switch u := t.Underlying().(type) {
	case *types.Basic:
		if u.Info()&types.IsInteger != 0 && c.Mode == ModeInt {
			ii, _ := intInfoOf(t)
			if ii.bits == 0 {
				return "true"
			}
			return fmt.Sprintf("(and (<= %s %s) (<= %s %s))", intLit(ii.min()), x, x, intLit(ii.max()))
		}
		if u.Info()&types.IsString != 0 {
			return c.strFacts(x)
		}
	case *types.Slice:
		return c.sliceFacts(x, alloc)
	case *types.Pointer, *types.Map:
		top := ""
		if p, ok := u.(*types.Pointer); ok && isStruct(p.Elem()) && !c.W.embeddedTypes()[types.TypeString(p.Elem(), nil)] {
			// no type embeds this struct by value: the pointer designates an allocated object
			top = fmt.Sprintf(" (= (mod %s %s) 0)", x, refStride)
		}
		if alloc != "" {
			return fmt.Sprintf("(and (<= 0 %s) (< %s %s)%s)", x, x, alloc, top)
		}
		return fmt.Sprintf("(and (<= 0 %s)%s)", x, top)
	case *types.Interface:
		fs := fmt.Sprintf("(and (<= 0 (if.typ %s)) (=> (= (if.typ %s) 0) (= (if.ref %s) 0))", x, x, x)
		if alloc != "" {
			fs += fmt.Sprintf(" (< (if.ref %s) %s)", x, alloc)
		}
		return fs + ")"
	case *types.Struct:
		var fs []string
		for i := 0; i < u.NumFields(); i++ {
			fs = append(fs, c.typeFacts(c.structSel(t, i, x), u.Field(i).Type(), alloc))
		}
		return and(fs...)
	}
	return "true"
}

const maxLenStr = "281474976710656" // 2^48

func (c *Ctx) strFacts(x string) string {
	if c.Mode == ModeBV {
		return "true"
	}
	return fmt.Sprintf("(and (<= 0 (slen %s)) (<= (slen %s) %s))", x, x, maxLenStr)
}

func (c *Ctx) sliceFacts(x string, alloc string) string {
	if c.Mode == ModeBV {
		mx := bvLit(pow2(48), 64)
		fs := fmt.Sprintf("(and (bvule (sl.len %s) (sl.cap %s)) (bvule (sl.cap %s) %s) (bvule (sl.off %s) %s) (<= 0 (sl.base %s)) (=> (= (sl.base %s) 0) (= (sl.cap %s) (_ bv0 64)))", x, x, x, mx, x, mx, x, x, x)
		if alloc != "" {
			fs += fmt.Sprintf(" (< (sl.base %s) %s)", x, alloc)
		}
		return fs + ")"
	}
	fs := fmt.Sprintf("(and (<= 0 (sl.len %s)) (<= (sl.len %s) (sl.cap %s)) (<= (sl.cap %s) %s) (<= 0 (sl.off %s)) (<= (sl.off %s) %s) (<= 0 (sl.base %s)) (=> (= (sl.base %s) 0) (and (= (sl.cap %s) 0) (= (sl.off %s) 0)))", x, x, x, x, maxLenStr, x, x, maxLenStr, x, x, x, x)
	if alloc != "" {
		fs += fmt.Sprintf(" (< (sl.base %s) %s)", x, alloc)
	}
	return fs + ")"
}

// prelude returns the fixed SMT prelude for the mode.
func (c *Ctx) prelude() string {
	idx := c.idxSort()
	var sb strings.Builder
	sb.WriteString("(set-option :produce-models true)\n")
	sb.WriteString(fmt.Sprintf("(declare-datatypes ((Slice 0)) (((mk-slice (sl.base Int) (sl.off %s) (sl.len %s) (sl.cap %s)))))\n", idx, idx, idx))
	sb.WriteString("(declare-datatypes ((Iface 0)) (((mk-iface (if.typ Int) (if.ref Int)))))\n")
	sb.WriteString("(declare-sort Str 0)\n")
	sb.WriteString("(declare-sort Bytes 0)\n")
	if c.Mode == ModeInt {
		sb.WriteString("(declare-fun slen (Str) Int)\n(declare-fun sat (Str Int) Int)\n(declare-fun ssub (Str Int Int) Str)\n(declare-fun scat (Str Str) Str)\n")
		sb.WriteString("(declare-fun ix (Int Int) Int)\n(assert (forall ((a Int) (b Int)) (! (= (ix a b) (+ a b)) :pattern ((ix a b)))))\n")
	} else {
		sb.WriteString("(declare-fun ix ((_ BitVec 64) (_ BitVec 64)) (_ BitVec 64))\n(assert (forall ((a (_ BitVec 64)) (b (_ BitVec 64))) (! (= (ix a b) (bvadd a b)) :pattern ((ix a b)))))\n")
		sb.WriteString("(declare-fun slen (Str) (_ BitVec 64))\n(declare-fun sat (Str (_ BitVec 64)) (_ BitVec 8))\n")
	}
	return sb.String()
}

func sortedKeys(m map[string]string) []string {
	var ks []string
	for k := range m {
		ks = append(ks, k)
	}
	sort.Strings(ks)
	return ks
}
