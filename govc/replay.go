package main

// Replay of solver counterexamples against the real code: the model's inputs
// are fed to the real function through an in-package test injected with
// `go test -overlay`; the run reproduces the violation if the real function
// panics (safety obligations) or returns exactly what the model predicted
// (postconditions: the solver showed that these outputs violate the clause).

import (
	"bytes"
	"context"
	"encoding/json"
	"fmt"
	"go/types"
	"math/big"
	"os"
	"os/exec"
	"path/filepath"
	"strings"
	"time"

	"golang.org/x/tools/go/ssa"
)

// ---- s-expressions ---------------------------------------------------------------

type sx struct {
	atom string
	list []*sx
}

func parseSx(s string) []*sx {
	var out []*sx
	i := 0
	var parse func() *sx
	skip := func() {
		for i < len(s) && (s[i] == ' ' || s[i] == '\n' || s[i] == '\t' || s[i] == '\r') {
			i++
		}
	}
	parse = func() *sx {
		skip()
		if i >= len(s) {
			return nil
		}
		if s[i] == '(' {
			i++
			n := &sx{list: []*sx{}}
			for {
				skip()
				if i >= len(s) {
					return n
				}
				if s[i] == ')' {
					i++
					return n
				}
				c := parse()
				if c == nil {
					return n
				}
				n.list = append(n.list, c)
			}
		}
		if s[i] == '|' {
			j := strings.IndexByte(s[i+1:], '|')
			if j < 0 {
				j = len(s) - i - 1
			}
			a := s[i : i+j+2]
			i += j + 2
			return &sx{atom: a}
		}
		if s[i] == '"' {
			j := i + 1
			for j < len(s) && s[j] != '"' {
				j++
			}
			a := s[i : j+1]
			i = j + 1
			return &sx{atom: a}
		}
		j := i
		for j < len(s) && !strings.ContainsRune(" \n\t\r()", rune(s[j])) {
			j++
		}
		a := s[i:j]
		i = j
		return &sx{atom: a}
	}
	for {
		n := parse()
		if n == nil {
			break
		}
		out = append(out, n)
	}
	return out
}

// sxInt interprets a solver value as an integer (Int or BitVec, unsigned).
func sxInt(v *sx) (*big.Int, bool) {
	if v == nil {
		return nil, false
	}
	if v.list == nil {
		a := v.atom
		if strings.HasPrefix(a, "#x") {
			n, ok := new(big.Int).SetString(a[2:], 16)
			return n, ok
		}
		if strings.HasPrefix(a, "#b") {
			n, ok := new(big.Int).SetString(a[2:], 2)
			return n, ok
		}
		n, ok := new(big.Int).SetString(a, 10)
		return n, ok
	}
	if len(v.list) == 2 && v.list[0].atom == "-" {
		n, ok := sxInt(v.list[1])
		if ok {
			return new(big.Int).Neg(n), true
		}
	}
	if len(v.list) == 3 && v.list[0].atom == "_" && strings.HasPrefix(v.list[1].atom, "bv") {
		n, ok := new(big.Int).SetString(v.list[1].atom[2:], 10)
		return n, ok
	}
	return nil, false
}

// modelPins keeps successive model queries of one obligation consistent:
// every value already read is asserted in later queries.
var modelPins = map[*Obligation][]string{}

func sxString(v *sx) string {
	if v.list == nil {
		return v.atom
	}
	var parts []string
	for _, c := range v.list {
		parts = append(parts, sxString(c))
	}
	return "(" + strings.Join(parts, " ") + ")"
}

// getValues re-runs the query with (get-value) for the given terms.
func getValues(o *Obligation, terms []string, timeout int) (map[string]*sx, error) {
	if len(terms) == 0 {
		return map[string]*sx{}, nil
	}
	saved := o.Extra
	o.Extra = append(append([]string{}, o.Extra...), modelPins[o]...)
	q := o.query(false, true) + "(get-value (" + strings.Join(terms, " ") + "))\n"
	o.Extra = saved
	f, err := os.CreateTemp("", "govc-model-*.smt2")
	if err != nil {
		return nil, err
	}
	defer os.Remove(f.Name())
	f.WriteString(q)
	f.Close()
	ctx, cancel := context.WithTimeout(context.Background(), time.Duration(timeout+2)*time.Second)
	defer cancel()
	cmd := exec.CommandContext(ctx, "z3-new", fmt.Sprintf("-T:%d", timeout), "-smt2", "model.completion=true", f.Name())
	var out bytes.Buffer
	cmd.Stdout = &out
	cmd.Run()
	s := out.String()
	if !strings.HasPrefix(strings.TrimSpace(s), "sat") {
		return nil, fmt.Errorf("model query not sat: %s", firstLines(s, 2))
	}
	s = strings.TrimSpace(strings.TrimPrefix(strings.TrimSpace(s), "sat"))
	xs := parseSx(s)
	res := map[string]*sx{}
	if len(xs) == 0 {
		return res, nil
	}
	for i, pair := range xs[0].list {
		if len(pair.list) == 2 && i < len(terms) {
			res[terms[i]] = pair.list[1]
			vs := sxString(pair.list[1])
			if !strings.Contains(vs, "lambda") && !strings.Contains(vs, "as const") && len(vs) < 200 {
				modelPins[o] = append(modelPins[o], "(assert (= "+terms[i]+" "+vs+"))")
			}
		}
	}
	return res, nil
}

// ---- model to Go literals ------------------------------------------------------------

type replayInput struct {
	Name string
	Go   string // Go expression
	JSON interface{}
}

func signedOf(n *big.Int, t types.Type) *big.Int {
	ii, ok := intInfoOf(t)
	if !ok || ii.bits == 0 {
		return n
	}
	m := new(big.Int).Mod(n, pow2(ii.bits))
	if ii.signed && m.Cmp(pow2(ii.bits-1)) >= 0 {
		m.Sub(m, pow2(ii.bits))
	}
	return m
}

const maxReplayLen = 1 << 16

// goTypeName writes t as it must be spelled inside the package of the
// function under replay, remembering the imports that spelling needs.
func (w *World) goTypeName(c *Ctx, t types.Type) string {
	return types.TypeString(t, func(p *types.Package) string {
		if c.Fn != nil && c.Fn.Pkg != nil && p == c.Fn.Pkg.Pkg {
			return ""
		}
		if w.replayImports == nil {
			w.replayImports = map[string]string{}
		}
		w.replayImports[p.Path()] = p.Name()
		return p.Name()
	})
}

// modelValue extracts the concrete value of term x (type t) from the model
// of o, as a Go expression. heapState selects the heap version for contents.
func (w *World) modelValue(o *Obligation, x string, t types.Type, st *State) (string, interface{}, error) {
	c := o.Ctx
	switch u := t.Underlying().(type) {
	case *types.Basic:
		switch {
		case u.Info()&types.IsBoolean != 0:
			vs, err := getValues(o, []string{x}, 20)
			if err != nil {
				return "", nil, err
			}
			b := vs[x] != nil && vs[x].atom == "true"
			return fmt.Sprint(b), b, nil
		case u.Info()&types.IsInteger != 0:
			vs, err := getValues(o, []string{x}, 20)
			if err != nil {
				return "", nil, err
			}
			n, ok := sxInt(vs[x])
			if !ok {
				return "", nil, fmt.Errorf("no integer value for %s", x)
			}
			n = signedOf(n, t)
			return fmt.Sprintf("%s(%s)", w.goTypeName(c, t), n.String()), n.String(), nil
		case u.Info()&types.IsString != 0:
			// prefer models with short strings
			{
				pin := "(assert (<= (slen " + x + ") 64))"
				saved := modelPins[o]
				modelPins[o] = append(append([]string{}, saved...), pin)
				if _, err := getValues(o, []string{"(slen " + x + ")"}, 20); err != nil {
					modelPins[o] = saved
				} else {
					modelPins[o] = append(append([]string{}, saved...), pin)
				}
			}
			vs, err := getValues(o, []string{"(slen " + x + ")"}, 20)
			if err != nil {
				return "", nil, err
			}
			ln, ok := sxInt(vs["(slen "+x+")"])
			if !ok || ln.Sign() < 0 || ln.Cmp(big.NewInt(maxReplayLen)) > 0 {
				return "", nil, fmt.Errorf("string length %v not replayable", ln)
			}
			var terms []string
			for i := int64(0); i < ln.Int64(); i++ {
				terms = append(terms, fmt.Sprintf("(sat %s %s)", x, c.idxLit(i)))
			}
			vs, err = getValues(o, terms, 30)
			if err != nil {
				return "", nil, err
			}
			bs := make([]byte, ln.Int64())
			for i, tm := range terms {
				n, _ := sxInt(vs[tm])
				if n != nil {
					bs[i] = byte(n.Int64() & 255)
				}
			}
			return fmt.Sprintf("%q", string(bs)), string(bs), nil
		}
	case *types.Slice:
		if _, ok := intInfoOf(u.Elem()); !ok {
			return "", nil, fmt.Errorf("slice of %s not replayable", u.Elem())
		}
		lt, ct, bt := "(sl.len "+x+")", "(sl.cap "+x+")", "(sl.base "+x+")"
		// prefer small models: no spare capacity, short slice
		for _, pin := range []string{"(assert (= " + ct + " " + lt + "))", "(assert " + c.ile(lt, c.idxLit(256)) + ")"} {
			saved := modelPins[o]
			modelPins[o] = append(append([]string{}, saved...), pin)
			if _, err := getValues(o, []string{lt}, 20); err != nil {
				modelPins[o] = saved
			} else {
				// keep the preference, not the values of this probe's model
				modelPins[o] = append(append([]string{}, saved...), pin)
			}
		}
		vs, err := getValues(o, []string{lt, ct, bt}, 20)
		if err != nil {
			return "", nil, err
		}
		ln, ok1 := sxInt(vs[lt])
		cp, ok2 := sxInt(vs[ct])
		bs, _ := sxInt(vs[bt])
		if !ok1 || !ok2 || ln.Sign() < 0 || cp.Cmp(big.NewInt(maxReplayLen)) > 0 {
			return "", nil, fmt.Errorf("slice len/cap %v/%v not replayable", ln, cp)
		}
		if bs != nil && bs.Sign() == 0 {
			return "nil", []string{}, nil
		}
		h, srt := c.memHeap(u.Elem())
		mem := c.heapGet(st, h, srt)
		var terms []string
		for i := int64(0); i < ln.Int64(); i++ {
			terms = append(terms, fmt.Sprintf("(select (select %s (sl.base %s)) %s)", mem, x, c.eidx("(sl.off "+x+")", c.idxLit(i))))
		}
		vs, err = getValues(o, terms, 30)
		if err != nil {
			return "", nil, err
		}
		var parts []string
		js := []string{}
		for _, tm := range terms {
			n, _ := sxInt(vs[tm])
			if n == nil {
				n = big.NewInt(0)
			}
			n = signedOf(n, u.Elem())
			parts = append(parts, n.String())
			js = append(js, n.String())
		}
		tn := w.goTypeName(c, t)
		goExpr := fmt.Sprintf("append(make(%s, 0, %d), %s{%s}...)", tn, cp.Int64(), tn, strings.Join(parts, ", "))
		return goExpr, js, nil
	case *types.Array:
		if _, ok := intInfoOf(u.Elem()); !ok || u.Len() > 4096 {
			return "", nil, fmt.Errorf("array of %s not replayable", u.Elem())
		}
		var terms []string
		for i := int64(0); i < u.Len(); i++ {
			terms = append(terms, fmt.Sprintf("(select %s %s)", x, c.idxLit(i)))
		}
		vs, err := getValues(o, terms, 30)
		if err != nil {
			return "", nil, err
		}
		var parts []string
		for _, tm := range terms {
			n, _ := sxInt(vs[tm])
			if n == nil {
				n = big.NewInt(0)
			}
			parts = append(parts, signedOf(n, u.Elem()).String())
		}
		tn := w.goTypeName(c, t)
		return fmt.Sprintf("%s{%s}", tn, strings.Join(parts, ", ")), parts, nil
	case *types.Pointer:
		stt, ok := u.Elem().Underlying().(*types.Struct)
		if !ok {
			return "", nil, fmt.Errorf("pointer to %s not replayable", u.Elem())
		}
		vs, err := getValues(o, []string{x}, 20)
		if err != nil {
			return "", nil, err
		}
		if r, ok := sxInt(vs[x]); ok && r.Sign() == 0 {
			return "nil", "nil", nil
		}
		// a struct literal of the fields whose values the model determines and
		// the harness can write (other fields keep their zero value)
		samePkg := func(f *types.Var) bool {
			return f.Exported() || (f.Pkg() != nil && c.Fn.Pkg != nil && f.Pkg() == c.Fn.Pkg.Pkg)
		}
		var parts []string
		js := map[string]interface{}{}
		for i := 0; i < stt.NumFields(); i++ {
			fv := stt.Field(i)
			ft := fv.Type()
			if isStruct(ft) || !samePkg(fv) {
				continue
			}
			h, srt := c.fieldHeap(u.Elem(), i)
			g, j, err := w.modelValue(o, "(select "+c.heapGet(st, h, srt)+" "+x+")", ft, st)
			if err != nil || g == "" {
				switch ft.Underlying().(type) {
				case *types.Basic, *types.Slice, *types.Array:
					// the harness could not build the value the model pins: the run
					// would not be a replay of this model
					return "", nil, fmt.Errorf("field %s: %v", fv.Name(), err)
				}
				continue
			}
			if _, isPtr := ft.Underlying().(*types.Pointer); isPtr && g != "nil" {
				continue
			}
			if g == "nil" {
				continue
			}
			parts = append(parts, fv.Name()+": "+g)
			js[fv.Name()] = j
		}
		tn := w.goTypeName(c, u.Elem())
		return "&" + tn + "{" + strings.Join(parts, ", ") + "}", js, nil
	case *types.Interface:
		// only nil-ness is meaningful
		tt := "(= (if.typ " + x + ") 0)"
		vs, err := getValues(o, []string{tt}, 20)
		if err != nil {
			return "", nil, err
		}
		isNil := vs[tt] != nil && vs[tt].atom == "true"
		if isNil {
			return "nil", "nil", nil
		}
		return "", "non-nil", nil
	}
	return "", nil, fmt.Errorf("type %s not replayable", t)
}

type replayFile struct {
	Property   string                 `json:"property"`
	Obligation string                 `json:"obligation"`
	Kind       string                 `json:"kind"`
	Function   string                 `json:"function"`
	Where      string                 `json:"where"`
	Clause     string                 `json:"clause"`
	Reason     string                 `json:"reason"`
	Solver     string                 `json:"solver"`
	Status     string                 `json:"solver_status"`
	Inputs     map[string]interface{} `json:"inputs,omitempty"`
	Predicted  map[string]interface{} `json:"predicted_outputs,omitempty"`
	Observed   string                 `json:"observed,omitempty"`
	Reproduced bool                   `json:"reproduced"`
	ReplayNote string                 `json:"replay_note,omitempty"`
	TestFile   string                 `json:"test_file,omitempty"`
	Query      string                 `json:"query_file,omitempty"`
	SolverOut  string                 `json:"solver_output,omitempty"`
}

func (w *World) replayReproduces(id string, r *Result) bool {
	dir := filepath.Join(verifDir, "work", id, "replay-probe")
	os.MkdirAll(dir, 0755)
	rf := w.buildReplay(dir, id, r, "")
	if debugReplay {
		data, _ := json.MarshalIndent(rf, "", " ")
		fmt.Println(string(data))
	}
	return rf.Reproduced
}

// writeReplay writes the replay record for a violation and tries to
// reproduce it on the real code. Returns the record's path.
func (w *World) writeReplay(dir, id string, r *Result, why string) (string, bool) {
	rf := w.buildReplay(dir, id, r, why)
	path := filepath.Join(dir, safeName(r.Obl.Name)+".json")
	data, _ := json.MarshalIndent(rf, "", " ")
	os.WriteFile(path, data, 0644)
	return path, rf.Reproduced
}

func (w *World) buildReplay(dir, id string, r *Result, why string) *replayFile {
	o := r.Obl
	if r.FailedPart != nil {
		o = r.FailedPart
	}
	rf := &replayFile{Property: id, Obligation: o.Name, Kind: o.Kind, Function: o.Func, Where: w.posString(o.Pos), Clause: o.Text, Reason: why, Solver: r.Solver, Status: r.Status, Query: r.Query}
	if len(r.Model) > 0 {
		rf.SolverOut = firstLines(r.Model, 3)
	} else {
		rf.SolverOut = r.Reason
	}
	if r.Status != "refuted" && r.Status != "refuted-candidate" {
		rf.ReplayNote = "solver gave no counterexample (" + r.Status + ")"
		return rf
	}
	c := o.Ctx
	fn := c.Fn
	if fn == nil {
		rf.ReplayNote = "not a function obligation"
		return rf
	}
	if r.Relaxed {
		o.Relaxed = true
		defer func() { o.Relaxed = false }()
	}
	if tmpl := w.replayTemplate(fn); tmpl != nil {
		return tmpl(w, dir, id, r, rf)
	}
	tm := w.recvTemplate(fn)
	genericRecv := false
	if fn.Signature.Recv() != nil && tm == nil {
		// a pointer-to-struct receiver is rebuilt from the model like any other
		// struct argument
		if pt, ok := fn.Signature.Recv().Type().Underlying().(*types.Pointer); ok && isStruct(pt.Elem()) {
			genericRecv = true
		}
	}
	if (fn.Signature.Recv() != nil && tm == nil && !genericRecv) || len(fn.FreeVars) > 0 || fn.Parent() != nil {
		rf.ReplayNote = "function has a receiver without a replay template, or is a closure: no replay harness"
		return rf
	}
	var argExprs []string
	frameChecks := ""
	w.replayImports = map[string]string{}
	rf.Inputs = map[string]interface{}{}
	entry := &State{H: map[string]string{}}
	setup := ""
	extraImports := ""
	params := fn.Params
	callee := fn.Name()
	if tm != nil {
		for _, imp := range tm.imports {
			extraImports += fmt.Sprintf("\t%q\n", imp)
		}
		for name, rexpr := range tm.streams {
			data, err := w.modelStream(o, rexpr)
			if err != nil {
				rf.ReplayNote = "stream " + rexpr + " not extractable: " + err.Error()
				return rf
			}
			var parts []string
			for _, b := range data {
				parts = append(parts, fmt.Sprint(b))
			}
			setup += fmt.Sprintf("\t%s := []byte{%s}\n", name, strings.Join(parts, ", "))
			rf.Inputs["stream "+rexpr] = parts
		}
		setup += "\trecv := " + tm.recv + "\n"
		params = fn.Params[1:]
		callee = "recv." + fn.Name()
	}
	if genericRecv {
		rp := fn.Params[0]
		v := c.paramVals[rp.Name()]
		g, js, err := w.modelValue(o, v.T, rp.Type(), entry)
		if err != nil || g == "" || g == "nil" {
			rf.ReplayNote = fmt.Sprintf("receiver %s not replayable: %v", rp.Name(), err)
			return rf
		}
		rf.Inputs["receiver "+rp.Name()] = js
		setup += "\trecv := " + g + "\n"
		params = fn.Params[1:]
		callee = "recv." + fn.Name()
	}
	for _, p := range params {
		v := c.paramVals[p.Name()]
		if nt, ok := p.Type().(*types.Named); ok && nt.Obj().Pkg() != nil && nt.Obj().Pkg().Path() == "io" && nt.Obj().Name() == "Reader" {
			// an io.Reader argument: a bytes.Reader over the bytes the model's
			// stream still has to deliver
			data, err := w.modelStream(o, p.Name())
			if err != nil {
				rf.ReplayNote = "stream of " + p.Name() + " not extractable: " + err.Error()
				return rf
			}
			var parts []string
			for _, b := range data {
				parts = append(parts, fmt.Sprint(b))
			}
			w.replayImports["bytes"] = "bytes"
			argExprs = append(argExprs, "bytes.NewReader([]byte{"+strings.Join(parts, ", ")+"})")
			rf.Inputs["stream "+p.Name()] = parts
			continue
		}
		if nt, ok := p.Type().(*types.Named); ok && nt.Obj().Pkg() != nil && nt.Obj().Pkg().Path() == "io" && nt.Obj().Name() == "Writer" {
			// an io.Writer argument: a buffer that accepts everything (the
			// failure behaviour of the destination is not part of the replay)
			w.replayImports["bytes"] = "bytes"
			argExprs = append(argExprs, "new(bytes.Buffer)")
			rf.Inputs["writer "+p.Name()] = "a fresh bytes.Buffer"
			continue
		}
		g, js, err := w.modelValue(o, v.T, p.Type(), entry)
		if err != nil || g == "" {
			rf.ReplayNote = fmt.Sprintf("input %s not replayable: %v", p.Name(), err)
			return rf
		}
		if sl, ok := p.Type().Underlying().(*types.Slice); ok && g != "nil" {
			if _, isInt := intInfoOf(sl.Elem()); isInt {
				// keep the argument in a variable and remember its whole backing
				// array, to observe writes the frame forbids
				an := fmt.Sprintf("govcArg%d", len(argExprs))
				setup += fmt.Sprintf("\t%s := %s\n\t%sBefore := fmt.Sprint(%s[:cap(%s)])\n", an, g, an, an, an)
				frameChecks += fmt.Sprintf("\tif fmt.Sprint(%s[:cap(%s)]) != %sBefore {\n\t\tfmt.Printf(\"GOVC-REPLAY-FRAME argument %s: backing array changed from %%s to %%v\\n\", %sBefore, %s[:cap(%s)])\n\t}\n", an, an, an, p.Name(), an, an, an)
				g = an
			}
		}
		argExprs = append(argExprs, g)
		rf.Inputs[p.Name()] = js
	}
	// predicted outputs (postconditions only)
	rf.Predicted = map[string]interface{}{}
	var predicted []interface{}
	if o.Kind == "ensures" {
		for i, rt := range c.retMerged {
			_, js, err := w.modelValue(o, rt.T, rt.Typ, c.retState)
			if err != nil {
				// (typical for candidate models of the quantifier-free relaxation)
				// no prediction: the clause is decided on the observed outputs
				predicted = nil
				rf.Predicted = map[string]interface{}{"note": fmt.Sprintf("output %d not extractable from the model: %v", i, err)}
				break
			}
			predicted = append(predicted, js)
			rf.Predicted[fmt.Sprintf("result%d", i)] = js
		}
	}
	pkgDir := filepath.Dir(w.Fset.Position(fn.Pos()).Filename)
	var resNames, prints []string
	for i := 0; i < fn.Signature.Results().Len(); i++ {
		resNames = append(resNames, fmt.Sprintf("r%d", i))
		prints = append(prints, fmt.Sprintf("govcShow(r%d)", i))
	}
	for path := range w.replayImports {
		if path == "fmt" || path == "testing" || path == "encoding/json" || strings.Contains(extraImports, "\""+path+"\"") {
			continue
		}
		extraImports += fmt.Sprintf("\t%q\n", path)
	}
	callStmt := fmt.Sprintf("%s(%s)", callee, strings.Join(argExprs, ", "))
	if len(resNames) > 0 {
		callStmt = strings.Join(resNames, ", ") + " := " + callStmt
	}
	src := fmt.Sprintf(`package %s

import (
	"encoding/json"
	"fmt"
	"testing"
%s)

func govcShow(v interface{}) interface{} {
	switch x := v.(type) {
	case error:
		if x == nil {
			return "nil"
		}
		return "non-nil"
	case nil:
		return "nil"
	case []byte:
		out := []string{}
		for _, b := range x {
			out = append(out, fmt.Sprint(b))
		}
		return out
	case int, int64, int32, int16, int8, uint, uint64, uint32, uint16, uint8:
		return fmt.Sprint(x)
	}
	// named integer types
	if s := fmt.Sprintf("%%d", v); len(s) > 0 && s[0] != '%%' && s[0] != '[' && s[0] != '{' && s[0] != '&' {
		return s
	}
	return v
}

func TestGovcReplay(t *testing.T) {
	defer func() {
		if r := recover(); r != nil {
			fmt.Printf("GOVC-REPLAY-PANIC %%v\n", r)
		}
	}()
%s	%s
%s	outs := []interface{}{%s}
	js, _ := json.Marshal(outs)
	fmt.Printf("GOVC-REPLAY-OUT %%s\n", js)
}
`, fn.Pkg.Pkg.Name(), extraImports, setup, callStmt, frameChecks, strings.Join(prints, ", "))
	testPath := filepath.Join(dir, safeName(o.Name)+"_test.go")
	os.WriteFile(testPath, []byte(src), 0644)
	rf.TestFile = testPath
	out, err := w.runOverlayTest(pkgDir, testPath, "TestGovcReplay")
	if err != nil {
		rf.ReplayNote = "replay run failed: " + err.Error() + ": " + firstLines(out, 5)
		return rf
	}
	for _, line := range strings.Split(out, "\n") {
		if strings.HasPrefix(line, "GOVC-REPLAY-PANIC") {
			rf.Observed = line
			switch o.Kind {
			case "bounds", "nil", "div", "unreachable", "typeassert", "alloc", "panic-only-if":
				rf.Reproduced = true
			default:
				// a panic where the contract promises a normal return also violates a postcondition
				rf.Reproduced = o.Kind == "ensures"
			}
		}
		if strings.HasPrefix(line, "GOVC-REPLAY-FRAME") && o.Kind == "frame" {
			rf.Observed = line
			rf.Reproduced = true
			rf.ReplayNote = "the call changed memory of an argument that the assigns clause does not list"
			return rf
		}
		if strings.HasPrefix(line, "GOVC-REPLAY-OUT ") {
			rf.Observed = line
			if o.Kind == "ensures" {
				pj, _ := json.Marshal(predicted)
				obs := strings.TrimSpace(strings.TrimPrefix(line, "GOVC-REPLAY-OUT "))
				rf.Reproduced = obs == string(pj)
				if !rf.Reproduced {
					// the real outputs differ from the model's: decide the clause on
					// the observed inputs and outputs directly
					if bad, note := w.clauseViolatedBy(o, obs); bad {
						rf.Reproduced = true
						rf.ReplayNote = "real outputs differ from the model's prediction " + string(pj) + " but violate the clause as well: " + note
					} else {
						rf.ReplayNote = "real outputs differ from the model's prediction " + string(pj) + " (" + note + ")"
					}
				}
			}
		}
	}
	return rf
}

// runOverlayTest runs one in-package test injected through -overlay.
func (w *World) runOverlayTest(pkgDir, testFile, run string) (string, error) {
	target := filepath.Join(pkgDir, "zz_govc_replay_test.go")
	ov := map[string]interface{}{"Replace": map[string]string{target: testFile}}
	for k, v := range w.Overlay {
		// mutated sources under selftest
		tmp := testFile + "." + safeName(filepath.Base(k)) + ".overlay.go"
		os.WriteFile(tmp, v, 0644)
		ov["Replace"].(map[string]string)[k] = tmp
	}
	ovPath := testFile + ".overlay.json"
	data, _ := json.Marshal(ov)
	os.WriteFile(ovPath, data, 0644)
	ctx, cancel := context.WithTimeout(context.Background(), 120*time.Second)
	defer cancel()
	cmd := exec.CommandContext(ctx, "go", "test", "-overlay", ovPath, "-vet=off", "-v", "-count=1", "-timeout", "60s", "-run", "^"+run+"$", ".")
	cmd.Dir = pkgDir
	cmd.Env = append(os.Environ(), "GOFLAGS=-mod=mod", "GOPROXY=off", "GOSUMDB=off", "GOTOOLCHAIN=local")
	var out bytes.Buffer
	cmd.Stdout = &out
	cmd.Stderr = &out
	err := cmd.Run()
	s := out.String()
	if strings.Contains(s, "GOVC-REPLAY-") {
		return s, nil
	}
	return s, err
}

type replayTmpl func(w *World, dir, id string, r *Result, rf *replayFile) *replayFile

func (w *World) replayTemplate(fn *ssa.Function) replayTmpl {
	return nil
}

// recvTmpl says how to build a real receiver from the model's ghost state.
type recvTmpl struct {
	match   string
	imports []string
	streams map[string]string // Go variable -> spec expression of an io.Reader
	recv    string
}

var recvTemplates = []recvTmpl{
	{match: "internal/cbor.(*Decoder).", imports: []string{"bytes"}, streams: map[string]string{"data": "d.r"}, recv: "NewDecoder(bytes.NewReader(data))"},
}

func (w *World) recvTemplate(fn *ssa.Function) *recvTmpl {
	k := shortFuncKey(fn)
	for i := range recvTemplates {
		if strings.HasPrefix(k, recvTemplates[i].match) {
			return &recvTemplates[i]
		}
	}
	return nil
}

// modelStream extracts the bytes a ghost reader still has to deliver,
// preferring models with a short remaining stream.
func (w *World) modelStream(o *Obligation, rexpr string) ([]byte, error) {
	c := o.Ctx
	term := func(src string) (string, error) {
		e, err := ParseExpr(src)
		if err != nil {
			return "", err
		}
		before := len(c.Log)
		v, err := c.entryEnv.term(e)
		extra := append([]string{}, c.Log[before:]...)
		c.Log = c.Log[:before]
		o.Extra = append(o.Extra, extra...)
		return v.T, err
	}
	pos, err := term("spos(" + rexpr + ")")
	if err != nil {
		return nil, err
	}
	end, err := term("send(" + rexpr + ")")
	if err != nil {
		return nil, err
	}
	rem := c.isub(end, pos)
	short := "(assert " + and(c.ile(c.idxLit(0), rem), c.ile(rem, c.idxLit(64))) + ")"
	saved := o.Extra
	o.Extra = append(append([]string{}, saved...), short)
	vs, err := getValues(o, []string{pos, end}, 20)
	if err != nil {
		o.Extra = saved
		vs, err = getValues(o, []string{pos, end}, 20)
		if err != nil {
			return nil, err
		}
	} else {
		o.Extra = saved
		modelPins[o] = append(modelPins[o], short)
	}
	p, ok1 := sxInt(vs[pos])
	e, ok2 := sxInt(vs[end])
	if !ok1 || !ok2 {
		return nil, fmt.Errorf("no position values")
	}
	p = signedOf(p, types.Typ[types.Int64])
	e = signedOf(e, types.Typ[types.Int64])
	n := new(big.Int).Sub(e, p)
	if n.Sign() < 0 || n.Cmp(big.NewInt(4096)) > 0 {
		return nil, fmt.Errorf("remaining stream length %v not replayable", n)
	}
	var terms []string
	for i := int64(0); i < n.Int64(); i++ {
		t, err := term(fmt.Sprintf("sdata(%s)[spos(%s) + %d]", rexpr, rexpr, i))
		if err != nil {
			return nil, err
		}
		terms = append(terms, t)
	}
	vs, err = getValues(o, terms, 30)
	if err != nil {
		return nil, err
	}
	out := make([]byte, n.Int64())
	for i, t := range terms {
		if b, ok := sxInt(vs[t]); ok {
			out[i] = byte(b.Int64() & 255)
		}
	}
	return out, nil
}

// clauseViolatedBy evaluates the violated ensures clause on the observed
// outputs of the real run (inputs stay pinned to the model's values). Only
// clauses over parameters and results of scalar / error / []byte type.
func (w *World) clauseViolatedBy(o *Obligation, obsJSON string) (bool, string) {
	c := o.Ctx
	fn := c.Fn
	ct := w.Specs.Contracts[funcKey(fn)]
	if ct == nil || c.entryEnv == nil {
		return false, "no contract"
	}
	var clause *Clause
	for _, e := range ct.Ensures {
		if e.Text == o.Text {
			clause = e
		}
	}
	if clause == nil {
		return false, "clause not found"
	}
	var obs []interface{}
	if err := json.Unmarshal([]byte(obsJSON), &obs); err != nil {
		return false, "observed outputs not parsable"
	}
	names := resultNames(ct, fn.Signature)
	env := c.entryEnv.clone()
	env.goal = false
	before := len(c.Log)
	var extra []string
	for i := 0; i < fn.Signature.Results().Len() && i < len(obs); i++ {
		rt := fn.Signature.Results().At(i).Type()
		var v Val
		switch x := obs[i].(type) {
		case string:
			if _, isInt := intInfoOf(rt); isInt {
				n, ok := new(big.Int).SetString(x, 10)
				if !ok {
					return false, "unparsable integer output"
				}
				if c.Mode == ModeBV {
					ii, _ := intInfoOf(rt)
					n = new(big.Int).Mod(n, pow2(ii.bits))
				}
				v = Val{T: c.numLit(n, rt), Typ: rt}
			} else if _, isIf := rt.Underlying().(*types.Interface); isIf {
				if x == "nil" {
					v = Val{T: "(mk-iface 0 0)", Typ: rt}
				} else {
					nm := c.fresh("obs")
					c.declConst(nm, "Iface")
					extra = append(extra, "(assert (not (= "+q(nm)+" (mk-iface 0 0))))")
					v = Val{T: q(nm), Typ: rt}
				}
			} else {
				return false, "output type not supported"
			}
		case bool:
			v = Val{T: fmt.Sprint(x), Typ: rt}
		case []interface{}:
			sl, ok := rt.Underlying().(*types.Slice)
			if !ok {
				return false, "output type not supported"
			}
			nm := c.fresh("obs")
			c.declConst(nm, "Slice")
			h, srt := c.memHeap(sl.Elem())
			mem := c.heapInit(h, srt)
			extra = append(extra, "(assert (= (sl.len "+q(nm)+") "+c.idxLit(int64(len(x)))+"))", "(assert (= (sl.off "+q(nm)+") "+c.idxLit(0)+"))")
			for k, e := range x {
				es, _ := e.(string)
				n, _ := new(big.Int).SetString(es, 10)
				if n == nil {
					n = big.NewInt(0)
				}
				extra = append(extra, fmt.Sprintf("(assert (= (select (select %s (sl.base %s)) %s) %s))", mem, q(nm), c.idxLit(int64(k)), c.numLit(n, sl.Elem())))
			}
			v = Val{T: q(nm), Typ: rt}
		default:
			return false, "output type not supported"
		}
		if i < len(names) && names[i] != "" && names[i] != "_" {
			env.vars[names[i]] = v
		}
		if fn.Signature.Results().Len() == 1 {
			env.vars["result"] = v
		}
	}
	t, err := env.boolTerm(clause.E)
	extra = append(extra, c.Log[before:]...)
	c.Log = c.Log[:before]
	if err != nil {
		return false, "clause not evaluable on outputs: " + err.Error()
	}
	// query: declarations, input pins, observed outputs, negated clause
	var sb strings.Builder
	pre := c.prelude()
	sb.WriteString(pre)
	for _, d := range c.Decls {
		if strings.HasPrefix(d, "(assert") && strings.Contains(d, "(forall ") {
			continue
		}
		sb.WriteString(d + "\n")
	}
	for _, p := range modelPins[o] {
		sb.WriteString(p + "\n")
	}
	for _, x := range extra {
		sb.WriteString(x + "\n")
	}
	// the clause is violated by this run only if, with the inputs pinned to
	// what the harness passed and the outputs to what it observed, the clause
	// cannot hold whatever the parts of the inputs the harness left at their
	// zero value are taken to be -- and the pins themselves are consistent
	common := sb.String()
	run := func(extraAssert string) string {
		f, err := os.CreateTemp("", "govc-obs-*.smt2")
		if err != nil {
			return "error"
		}
		defer os.Remove(f.Name())
		f.WriteString(common + extraAssert + "(check-sat)\n")
		f.Close()
		r, _, _ := runSolver(solvers[0], f.Name(), 20)
		return r
	}
	if r := run(""); r != "sat" {
		return false, "pinned inputs and observed outputs are not jointly consistent (" + r + ")"
	}
	if r := run("(assert " + t + ")\n"); r == "unsat" {
		return true, "clause cannot hold for the observed outputs " + obsJSON
	} else {
		return false, "clause evaluation on observed outputs: holds or undetermined (" + r + ")"
	}
}
