package bigendian

// Engine self-test: functions injected (through an overlay, never written to
// /repo) next to a small package. mustfailN must have at least one obligation
// that is NOT proved; mustpassN must be proved completely. A mustfail that
// verifies means the engine has a soundness hole.

func mustfail1(m map[string]int) int {
	for range m {
	}
	return len(m)
}

func mustfail2(s string) int {
	for range s {
	}
	return len(s)
}

func mustfail3(a []int) int {
	t := 0
	for _, x := range a {
		t += x
	}
	return t
}

func mustfail4(p *int) {
	*p = 1
}

func mustfail5(x int64) bool {
	return x+1 > x
}

func mustfail6(a []byte, i int) byte {
	return a[i]
}

func selftestNeedsPositive(x int) int { return x }

func mustfail7(x int) int {
	return selftestNeedsPositive(x)
}

func mustfail8(m map[string]int) int {
	n := 0
	for k := range m {
		if k == "a" {
			n++
		}
	}
	return n
}

func mustfail9(a []byte) {
	b := append(a, 1)
	_ = b
}

func mustfail10(x uint8) uint8 {
	return x + 1
}

func mustpass1(a, b int) int {
	if a > b {
		return a
	}
	return b
}

func mustpass2(a []int) int {
	n := 0
	for i := 0; i < len(a); i++ {
		if a[i] > 0 {
			n++
		}
	}
	return n
}

func mustpass3(m map[string]int) int {
	n := 0
	for range m {
		n++
	}
	return n
}

func mustpass4(s string) int {
	n := 0
	for range s {
		n++
	}
	return n
}
