//go:build verif

package bigendian

//@ func mustfail1
//@   ensures result == 0
//@   assigns nothing
//@ func mustfail2
//@   ensures result == 0
//@   assigns nothing
//@   loop 0:
//@     invariant 0 <= strpos() && strpos() <= len(s)
//@ func mustfail3
//@   ensures result == 0
//@   assigns nothing
//@ func mustfail4
//@   requires p != nil
//@   assigns nothing
//@ func mustfail5
//@   ensures result
//@   assigns nothing
//@ func mustfail6
//@   assigns nothing
//@ func selftestNeedsPositive
//@   requires x > 0
//@   ensures result == x
//@   assigns nothing
//@ func mustfail7
//@   ensures result == x
//@   assigns nothing
//@ func mustfail8
//@   ensures result == 0
//@   assigns nothing
//@   loop 0:
//@     invariant n >= 0
//@ func mustfail9
//@   assigns nothing
//@ func mustfail10
//@   ensures result > x
//@   assigns nothing

//@ func mustpass1
//@   ensures result >= a && result >= b && (result == a || result == b)
//@   assigns nothing
//@ func mustpass2
//@   ensures 0 <= result && result <= len(a)
//@   assigns nothing
//@   loop 0:
//@     invariant 0 <= i && i <= len(a) && 0 <= n && n <= i
//@ func mustpass3
//@   ensures result == len(m)
//@   assigns nothing
//@   loop 0:
//@     invariant n == itercount()
//@ func mustpass4
//@   ensures result <= len(s) && result >= 0
//@   assigns nothing
//@   loop 0:
//@     invariant 0 <= strpos() && strpos() <= len(s) && 0 <= n && n <= strpos()
