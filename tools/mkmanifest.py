#!/usr/bin/env python3
"""Regenerates /verif/MANIFEST.json from the table below and baseline.json."""
import json, os
here = os.path.dirname(os.path.dirname(os.path.abspath(__file__)))
base = json.load(open(os.path.join(here, "baseline.json")))["props"]
props = [json.loads(l) for l in open(os.path.join(here, "properties.jsonl"))]

# per property: (level text, level_note, technique); absent => not_applicable with reason
CLAIMS = json.load(open(os.path.join(here, "tools", "claims.json")))
NA = json.load(open(os.path.join(here, "tools", "not_applicable.json")))

checks = []
na = []
for p in props:
    pid = p["id"]
    if pid in CLAIMS and len(base.get(pid, {})) > 0:
        c = CLAIMS[pid]
        checks.append({
            "property_id": pid,
            "quick_cmd": "bin/check %s quick" % pid,
            "thorough_cmd": "bin/check %s thorough" % pid,
            "evidence_file": "evidence/%s.json" % pid,
            "replay_cmd_template": "bin/replay {path}",
            "engine": "govc",
            "level_claimed": {"category": "proof", "text": c["text"], "design_ref": c.get("design_ref", "DESIGN.md §8 " + pid)},
            "level_note": c["note"],
            "technique": c.get("technique", "contract-based deductive verification: weakest-precondition style VCs generated from go/ssa of the real code against //@ contracts, discharged by z3/cvc5"),
        })
    else:
        na.append({"property_id": pid, "reason": NA.get(pid, "no contract within reach decides it yet; see DESIGN.md §13")})

m = {
    "version": 1,
    "setup_cmd": "sh tools/setup.sh",
    "hooks": {
        "guard": "verif",
        "enable": "go build -tags verif (the tag only adds comment-only contract files go/**/zz_contracts_verif.go; govc loads /repo with -tags=verif)",
        "baseline_off_cmd": "cd /repo && for m in .; do (cd /repo/$m && GOFLAGS=-mod=mod GOPROXY=off GOSUMDB=off go test -json -vet=off -count=1 -timeout 25m ./...); done",
        "source_commits": [l.strip() for l in open(os.path.join(here, "tools", "hook_commits.txt")) if l.strip()],
        "add_only": True,
    },
    "engines": [{"name": "govc", "path": "govc/", "serves_properties": [c["property_id"] for c in checks],
                 "kind_free_text": "home-made verification-condition generator for Go: go/packages+go/ssa of /repo's working tree -> SMT-LIB obligations per function under contract (requires/ensures/assigns/loop invariants/decreases in //@ comment files), callees by contract, discharged by z3 4.8.12, z3 5.1.0 and cvc5 1.0.3; counterexamples replayed on the real code with go test -overlay"}],
    "checks": checks,
    "not_applicable": na,
    "notes": "See DESIGN.md. 'proof' means: every obligation recorded in baseline.json for the property is discharged (unsat) on every run for all inputs and iterations; bounded stand-ins, where present, are labelled bounded in the evidence and never counted.",
}
json.dump(m, open(os.path.join(here, "MANIFEST.json"), "w"), indent=1)
print("checks:", [c["property_id"] for c in checks], "not_applicable:", [n["property_id"] for n in na])
