#!/bin/sh
# Builds govc from files on disk only (offline).
set -e
export GOFLAGS=-mod=mod GOPROXY=off GOSUMDB=off GOTOOLCHAIN=local
cd "$(dirname "$0")/.."
mkdir -p bin evidence work replay
(cd govc && go build -o ../bin/govc .)
echo "govc built"
