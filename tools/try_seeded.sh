#!/bin/sh
# usage: tools/try_seeded.sh <seeded-dir> <property>...   -- applies <dir>/patch.diff to /repo, runs the checks, reverts
export GOFLAGS=-mod=mod GOPROXY=off GOSUMDB=off GOTOOLCHAIN=local GOVC_NO_EVIDENCE=1
d=$(cd "$1" && pwd); shift
cd /verif
if [ -n "$(git -C /repo status --short | grep -v '^??')" ]; then echo "/repo has uncommitted changes; commit first"; exit 3; fi
git -C /repo apply --whitespace=nowarn "$d/patch.diff" || { echo "patch does not apply"; exit 3; }
for p in "$@"; do
  echo "--- check $p"
  bin/check $p quick 2>&1 | grep -E "^VIOLATION|^property|^BROKEN|^KNOWN" | cut -c1-400
done
git -C /repo apply -R --whitespace=nowarn "$d/patch.diff"
git -C /repo status --short | grep -v '^??' | head -3
