# Prompt handed to each independent sub-agent that produces a seeded change (usage: seed_agent_prompt.py <property-id> <name> [hint]; expects /tmp/prop-<id>.txt with the property JSON and a scratch worktree /tmp/wt-<name>).
import sys,json
pid, name, hint = sys.argv[1], sys.argv[2], (sys.argv[3] if len(sys.argv)>3 else "")
prop=open('/tmp/prop-%s.txt'%pid).read()
print(f"""You are helping test a verification effort. Work ONLY inside the git worktree /tmp/wt-{name} (a checkout of the Go repository WICG/webpackage). Do not read or touch /verif or /repo. Every shell command must start with: export GOFLAGS=-mod=mod GOPROXY=off GOSUMDB=off GOTOOLCHAIN=local (there is no network).

Here is a semantic property the project should satisfy (JSON):

{prop}

Task: make ONE small, realistic source change (the kind of slip a maintainer could make in a refactoring or 'optimisation': an off-by-one, a dropped check, a comparison direction, a wrong variable, a skipped field, a missing flush, ...) to non-test Go source files in /tmp/wt-{name}/go that BREAKS this property, such that
 1. the code still compiles and the whole existing test suite still passes: cd /tmp/wt-{name} && go build ./... && go test -vet=off -count=1 ./... ;
 2. the breakage needs something specific to manifest (a particular input shape, size, value or boundary), i.e. it is not visible on every input;
 3. you do NOT modify any *_test.go file nor any file named zz_contracts_verif.go (those are comment-only annotation files, ignore them), and you do not add new files other than the demonstration below.
{hint}
Then write a demonstration: a new Go test file (name it zz_seeded_{pid}_test.go, placed in the package directory it tests) containing one test that FAILS with your change and PASSES on the original code (verify both: use `git stash` / `git stash pop` or `git diff > /tmp/wt-{name}/patch.diff; git apply -R ...` to switch). 

Finally produce, in /tmp/wt-{name}/out/ : patch.diff (output of `git diff` of ONLY your source change, not the demonstration test; it must apply with `git apply` from the repository root), the demonstration test file (copy), and NOTES.md (what the change is, why it breaks the property, what is needed to manifest it, and the commands you ran with their results: suite passes with change, demo fails with change, demo passes without). Leave the worktree with your change applied. Reply with a 5-line summary: changed file/function, what changed, what manifests it, suite result, demo result.""")
